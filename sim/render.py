"""Renderer: node -> XML text / bytes under formatting knobs (DESIGN.md 4.2).

The renderer is deterministic: the same (node, knobs) gives the same text. All
knobs are chosen by the generator and stored in the trace.
"""
from .xmlmodel import WS

DEFAULT_KNOBS = {
    'indent': None,        # None | 1..4 | 'tab'
    'decl': False,         # XML declaration
    'encoding': 'utf-8',   # utf-8 | utf-16 | iso-8859-1 | us-ascii
    'cdata': False,        # CDATA sections for texts with markup characters
    'charref': 'raw',      # raw | dec | hex   (non-ASCII characters)
    'quote': '"',
    'empty': 'pair',       # pair | self
    'comments': 0,         # 0 | n: comments and processing instructions at every n-th eligible place
}

_NOISE = ['<!-- note -->', '<?verif x="1"?>', '<!---->', '<!-- <p>not a tag</p> & -->']


class _Noise:
    """Deterministic source of comments / processing instructions (knob 'comments')."""

    def __init__(self, n):
        self.n = n
        self.i = 0

    def take(self):
        if not self.n:
            return ''
        self.i += 1
        if self.i % (self.n + 1) == 0:
            return _NOISE[(self.i // (self.n + 1)) % len(_NOISE)]
        return ''


def _esc_chars(s, knobs, enc):
    out = []
    mode = knobs.get('charref', 'raw')
    for ch in s:
        o = ord(ch)
        if o < 128:
            out.append(ch)
            continue
        ref = mode != 'raw'
        if not ref:
            if enc in ('iso-8859-1', 'latin-1') and o > 255:
                ref = True
            elif 'ascii' in enc:
                ref = True
        if ref:
            out.append('&#x%x;' % o if mode == 'hex' else '&#%d;' % o)
        else:
            out.append(ch)
    return ''.join(out)


def _text(s, knobs, enc, noise=None):
    if not s:
        return ''
    if noise is not None and len(s) >= 2:
        c = noise.take()
        if c:
            h = len(s) // 2
            return _text(s[:h], knobs, enc) + c + _text(s[h:], knobs, enc)
    if knobs.get('cdata') and any(c in s for c in '&<>') and ']]>' not in s \
            and (enc.startswith('utf') or all(ord(c) < 128 for c in s)):
        return '<![CDATA[' + s + ']]>'
    s = s.replace('&', '&amp;').replace('<', '&lt;').replace('>', '&gt;')
    return _esc_chars(s, knobs, enc)


def _attr(s, knobs, enc):
    q = knobs.get('quote', '"')
    s = s.replace('&', '&amp;').replace('<', '&lt;')
    s = s.replace('\n', '&#10;').replace('\t', '&#9;')
    s = s.replace('"', '&quot;') if q == '"' else s.replace("'", '&apos;')
    return q + _esc_chars(s, knobs, enc) + q


def _mixed(node):
    """True if the element carries character data next to child elements."""
    if node[2] and node[2].strip(WS):
        return True
    return any(c[3] and c[3].strip(WS) for c in node[4])


def _ser(node, knobs, enc, pad, depth, out, pretty, noise=None):
    tag, attrs, text, tail, children = node
    out.append('<' + tag)
    for k in attrs:
        out.append(' %s=%s' % (k, _attr(attrs[k], knobs, enc)))
    if not children and not text:
        out.append('/>' if knobs.get('empty') == 'self' else '></%s>' % tag)
    else:
        out.append('>')
        inner_pretty = pretty and bool(children) and not _mixed(node)
        if inner_pretty:
            for c in children:
                out.append('\n' + pad * (depth + 1))
                if noise is not None:
                    out.append(noise.take())
                _ser(c, knobs, enc, pad, depth + 1, out, True, noise)
            out.append('\n' + pad * depth)
        else:
            out.append(_text(text, knobs, enc, noise))
            for c in children:
                _ser(c, knobs, enc, pad, depth + 1, out, False, noise)
                out.append(_text(c[3], knobs, enc, noise))
        out.append('</%s>' % tag)


def render(node, knobs=None):
    """node -> str (without encoding it)."""
    k = dict(DEFAULT_KNOBS)
    k.update(knobs or {})
    enc = k['encoding']
    ind = k['indent']
    pad = '' if ind is None else ('\t' if ind == 'tab' else ' ' * int(ind))
    out = []
    if k['decl']:
        out.append('<?xml version="1.0" encoding="%s"?>' % enc)
        if ind is not None:
            out.append('\n')
    noise = _Noise(int(k.get('comments') or 0)) if k.get('comments') else None
    if noise is not None:
        out.append(noise.take())
    _ser(node, k, enc, pad, 0, out, ind is not None, noise)
    if noise is not None:
        out.append(noise.take())
    if ind is not None:
        out.append('\n')
    return ''.join(out)


def render_bytes(node, knobs=None):
    k = dict(DEFAULT_KNOBS)
    k.update(knobs or {})
    enc = k['encoding']
    if enc == 'utf-16-be':
        # big-endian UTF-16 with a byte-order mark; the declaration names the family
        k['decl'] = True
        k['encoding'] = 'utf-16'
        return b'\xfe\xff' + render(node, k).encode('utf-16-be')
    if enc == 'utf-16':
        k['decl'] = True
    if enc in ('iso-8859-1', 'us-ascii'):
        k['decl'] = True  # otherwise the parser would assume UTF-8
    s = render(node, k)
    return s.encode(enc)
