"""Minimisation of a failing trace (DESIGN.md 10): delta debugging over steps, then
per-step and per-payload simplifiers, while the same clause keeps firing."""
import copy
import time


def _clauses(run, trace):
    return {v['clause'] for v in run(trace)}


def shrink(trace, clause, run, budget_s=60.0):
    """run(trace) -> list of violations.  Returns a (locally) minimal trace still showing *clause*."""
    t_end = time.time() + budget_s
    tests = [0]

    def fails(t):
        tests[0] += 1
        try:
            return clause in _clauses(run, t)
        except Exception:
            return False

    def timeup():
        return time.time() > t_end

    cur = copy.deepcopy(trace)
    if not fails(cur):
        return cur, {'tests': tests[0], 'reproduced': False}

    # ---- 1. ddmin over the steps after the create ---------------------------------
    def with_steps(steps):
        t = dict(cur)
        t['steps'] = [cur['steps'][0]] + steps
        return t

    steps = cur['steps'][1:]
    n = 2
    while len(steps) >= 1 and not timeup():
        chunk = max(1, len(steps) // n)
        reduced = False
        for i in range(0, len(steps), chunk):
            cand = steps[:i] + steps[i + chunk:]
            if fails(with_steps(cand)):
                steps = cand
                n = max(n - 1, 2)
                reduced = True
                break
        if not reduced:
            if chunk == 1:
                break
            n = min(len(steps), n * 2)
    cur = with_steps(steps)

    # ---- 2. per-step simplifiers ----------------------------------------------------------
    def try_edit(edit):
        nonlocal cur
        cand = copy.deepcopy(cur)
        if edit(cand) is False:
            return False
        if fails(cand):
            cur = cand
            return True
        return False

    for key in ('double', 'twin'):
        if timeup():
            break
        def off(t, key=key):
            if t['config'].get(key, key == 'twin') is False:
                return False
            t['config'][key] = False
        try_edit(off)

    for i in range(len(cur['steps'])):
        if timeup():
            break
        for field in ('io', 'corrupt', 'classify_all', 'double', 'channel', 'twin_lag'):
            def drop(t, i=i, field=field):
                if field not in t['steps'][i]:
                    return False
                del t['steps'][i][field]
            try_edit(drop)
        def plain(t, i=i):
            s = t['steps'][i]
            if 'knobs' not in s or s['knobs'] == {}:
                return False
            s['knobs'] = {}
        try_edit(plain)
        for field, val in (('path', 'str'), ('via', 'MosFile')):
            def setv(t, i=i, field=field, val=val):
                s = t['steps'][i]
                if s.get(field, val) == val:
                    return False
                s[field] = val
            try_edit(setv)
        def noenv(t, i=i):
            op = t['steps'][i].get('op')
            if not op or not op.get('env'):
                return False
            op['env'] = {}
        try_edit(noenv)

    # ---- 3. shrink lists inside ops (sources, payload) ------------------------------------------
    for i in range(len(cur['steps'])):
        op = cur['steps'][i].get('op')
        if not op or op['type'] in ('ROCreate', 'ROReplace', 'Raw'):
            continue
        for field in ('sources', 'payload'):
            j = 0
            while j < len(cur['steps'][i]['op'].get(field, [])) and not timeup():
                def cut(t, i=i, field=field, j=j):
                    o = t['steps'][i]['op']
                    if o['type'] == 'StorySend' and field == 'payload':
                        return False
                    if len(o[field]) <= 1:
                        return False
                    del o[field][j]
                    sh = o.get('shapes', {}).get(field)
                    if isinstance(sh, list) and j < len(sh):
                        del sh[j]
                if not try_edit(cut):
                    j += 1

    # ---- 4. shrink the content of roCreate / roReplace and of carried stories -----------------------
    def content_lists(t):
        """yield (list, index) holders that can lose an element"""
        for s in t['steps']:
            op = s.get('op')
            if not op or 'payload' not in op:
                continue
            if op['type'] in ('ROCreate', 'ROReplace'):
                yield op['payload'], ('roID', 'roSlug')
                for c in op['payload']:
                    if c[0] == 'story':
                        yield c[4], ('storyID',)
            elif op['type'] != 'Raw':
                for c in op['payload']:
                    if c[0] in ('story', 'item'):
                        yield c[4], ('storyID', 'itemID')

    progress = True
    rounds = 0
    while progress and not timeup() and rounds < 4:
        progress = False
        rounds += 1
        holders = list(content_lists(cur))
        for h in range(len(holders)):
            j = 0
            while not timeup():
                hl = list(content_lists(cur))
                if h >= len(hl):
                    break
                lst, keep = hl[h]
                if j >= len(lst):
                    break
                if lst[j][0] in keep:
                    j += 1
                    continue
                def cut(t, h=h, j=j):
                    hl2 = list(content_lists(t))
                    if h >= len(hl2):
                        return False
                    lst2, _ = hl2[h]
                    if lst2 and j < len(lst2):
                        span = lst2[j]
                        del lst2[j]
                        # keep roStorySend body spans consistent
                        for s in t['steps']:
                            o = s.get('op')
                            if o and o['type'] == 'StorySend' and o['payload'][0][4] is lst2:
                                a, b = o['body_span']
                                if j < a:
                                    a, b = a - 1, b - 1
                                elif j < b:
                                    b -= 1
                                o['body_span'] = [a, b]
                    else:
                        return False
                if try_edit(cut):
                    progress = True
                else:
                    j += 1
    return cur, {'tests': tests[0], 'reproduced': True, 'steps': len(cur['steps'])}
