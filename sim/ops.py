"""Abstract MOS operations and their XML documents (DESIGN.md 4.1).

An *op* is a JSON-able dict.  Fields (all optional except ``type``/``mid``):

    type     one of OP_TYPES (or a malformed relative, see MALFORMED)
    mid      message id (int)
    ro_id    running-order id the message is addressed to
    story    container story reference   (item-level ops)
    target   target reference
    sources  list of source references (ids named, not carried)
    payload  list of carried nodes (stories / items / metadata elements)
    tform    EA only: 'absent' | 'blank' | 'id'  - form of element_target
    env      envelope knobs

A *reference* is a str (an id), None (tag present but blank) or False (tag
absent).
"""
from .xmlmodel import N, T

# op type -> (message tag, EA operation, mosromgr class name, level)
OP_TABLE = {
    'StoryAppend':      ('roStoryAppend', None, 'StoryAppend', 'story'),
    'StoryInsert':      ('roStoryInsert', None, 'StoryInsert', 'story'),
    'StoryReplace':     ('roStoryReplace', None, 'StoryReplace', 'story'),
    'StoryMove':        ('roStoryMove', None, 'StoryMove', 'story'),
    'StoryDelete':      ('roStoryDelete', None, 'StoryDelete', 'story'),
    'StorySend':        ('roStorySend', None, 'StorySend', 'story'),
    'EAStoryInsert':    ('roElementAction', 'INSERT', 'EAStoryInsert', 'story'),
    'EAStoryReplace':   ('roElementAction', 'REPLACE', 'EAStoryReplace', 'story'),
    'EAStoryMove':      ('roElementAction', 'MOVE', 'EAStoryMove', 'story'),
    'EAStoryDelete':    ('roElementAction', 'DELETE', 'EAStoryDelete', 'story'),
    'EAStorySwap':      ('roElementAction', 'SWAP', 'EAStorySwap', 'story'),
    'ItemInsert':       ('roItemInsert', None, 'ItemInsert', 'item'),
    'ItemReplace':      ('roItemReplace', None, 'ItemReplace', 'item'),
    'ItemMoveMultiple': ('roItemMoveMultiple', None, 'ItemMoveMultiple', 'item'),
    'ItemDelete':       ('roItemDelete', None, 'ItemDelete', 'item'),
    'EAItemInsert':     ('roElementAction', 'INSERT', 'EAItemInsert', 'item'),
    'EAItemReplace':    ('roElementAction', 'REPLACE', 'EAItemReplace', 'item'),
    'EAItemMove':       ('roElementAction', 'MOVE', 'EAItemMove', 'item'),
    'EAItemDelete':     ('roElementAction', 'DELETE', 'EAItemDelete', 'item'),
    'EAItemSwap':       ('roElementAction', 'SWAP', 'EAItemSwap', 'item'),
    'MetadataReplace':  ('roMetadataReplace', None, 'MetaDataReplace', 'meta'),
    'ROReplace':        ('roReplace', None, 'RunningOrderReplace', 'ro'),
    'ReadyToAir':       ('roReadyToAir', None, 'ReadyToAir', 'none'),
    'RODelete':         ('roDelete', None, 'RunningOrderEnd', 'end'),
    'ROCreate':         ('roCreate', None, 'RunningOrder', 'ro'),
}
OP_TYPES = [t for t in OP_TABLE if t != 'ROCreate']
STORY_OPS = [t for t in OP_TYPES if OP_TABLE[t][3] == 'story']
ITEM_OPS = [t for t in OP_TYPES if OP_TABLE[t][3] == 'item']

# the sixteen message elements mosromgr knows, in the order its table lists them
MESSAGE_TAGS = [
    'roCreate', 'roStorySend', 'roStoryAppend', 'roStoryDelete', 'roStoryInsert',
    'roStoryMove', 'roStoryReplace', 'roItemDelete', 'roItemInsert',
    'roItemMoveMultiple', 'roItemReplace', 'roReplace', 'roMetadataReplace',
    'roReadyToAir', 'roDelete', 'roElementAction',
]
TAG_CLASS = {
    'roCreate': 'RunningOrder', 'roStorySend': 'StorySend', 'roStoryAppend': 'StoryAppend',
    'roStoryDelete': 'StoryDelete', 'roStoryInsert': 'StoryInsert', 'roStoryMove': 'StoryMove',
    'roStoryReplace': 'StoryReplace', 'roItemDelete': 'ItemDelete', 'roItemInsert': 'ItemInsert',
    'roItemMoveMultiple': 'ItemMoveMultiple', 'roItemReplace': 'ItemReplace',
    'roReplace': 'RunningOrderReplace', 'roMetadataReplace': 'MetaDataReplace',
    'roReadyToAir': 'ReadyToAir', 'roDelete': 'RunningOrderEnd',
}
# (operation, target has itemID, source has itemID) -> class   (documented table)
EA_CLASS = {
    ('REPLACE', False, False): 'EAStoryReplace',
    ('REPLACE', True, False): 'EAItemReplace',
    ('DELETE', False, False): 'EAStoryDelete',
    ('DELETE', False, True): 'EAItemDelete',
    ('INSERT', False, False): 'EAStoryInsert',
    ('INSERT', True, False): 'EAItemInsert',
    ('SWAP', False, False): 'EAStorySwap',
    ('SWAP', False, True): 'EAItemSwap',
    ('MOVE', False, False): 'EAStoryMove',
    ('MOVE', True, True): 'EAItemMove',
}


def _idtag(tag, ref):
    """storyID / itemID element for a reference; [] if the tag is absent."""
    if ref is False:
        return []
    return [T(tag, ref or '')]


def story_to_send_children(story, i, j):
    """children of a roStorySend for a <story> node whose children [i:j] go into storyBody."""
    ch = story[4]
    body = []
    for c in ch[i:j]:
        if c[0] == 'item':
            c = ['storyItem', c[1], c[2], c[3], c[4]]
        body.append(c)
    return ch[:i] + [['storyBody', {}, '', '', body]] + ch[j:]


def message_element(op):
    """The message element (child of <mos>) for an op, after any mangling (non-schema-shaped relatives)."""
    el = _message_element(op)
    m = op.get('mangle')
    if m:
        el = [el[0], el[1], el[2], el[3], list(el[4])]
        tag = m['tag']
        if m['how'] == 'drop_all':
            el[4] = [c for c in el[4] if c[0] != tag]
        elif m['how'] == 'drop':
            for i, c in enumerate(el[4]):
                if c[0] == tag:
                    del el[4][i]
                    break
        elif m['how'] == 'dup':
            for i, c in enumerate(el[4]):
                if c[0] == tag:
                    el[4].insert(i, c)
                    break
    return el


def _message_element(op):
    t = op['type']
    if t == 'Raw':           # malformed relatives: the element is given verbatim
        return op['element']
    tag, operation, _cls, _level = OP_TABLE[t]
    ro = [T('roID', op.get('ro_id', 'RO1'))]
    pay = op.get('payload', [])
    src = op.get('sources', [])
    if t == 'ROCreate' or t == 'ROReplace':
        # payload[0] is the complete roCreate element content (children incl. roID)
        return [tag, {}, '', '', list(op['payload'])]
    if t == 'StoryAppend':
        return [tag, {}, '', '', ro + pay]
    if t in ('StoryInsert', 'StoryReplace'):
        return [tag, {}, '', '', ro + _idtag('storyID', op['target']) + pay]
    if t == 'StoryMove':
        return [tag, {}, '', '', ro + _idtag('storyID', src[0] if src else False)
                + _idtag('storyID', op['target'])]
    if t == 'StoryDelete':
        return [tag, {}, '', '', ro + [x for s in src for x in _idtag('storyID', s)]]
    if t == 'StorySend':
        return [tag, dict(pay[0][1]), '', '', send_children(op)]
    if t in ('ItemInsert', 'ItemReplace'):
        return [tag, {}, '', '', ro + _idtag('storyID', op['story'])
                + _idtag('itemID', op['target']) + pay]
    if t == 'ItemMoveMultiple':
        return [tag, {}, '', '', ro + _idtag('storyID', op['story'])
                + [x for s in src for x in _idtag('itemID', s)]
                + _idtag('itemID', op['target'])]
    if t == 'ItemDelete':
        return [tag, {}, '', '', ro + _idtag('storyID', op['story'])
                + [x for s in src for x in _idtag('itemID', s)]]
    if t == 'MetadataReplace':
        return [tag, {}, '', '', ro + pay]
    if t == 'ReadyToAir':
        return [tag, {}, '', '', ro + [T('roAir', op.get('air', 'READY'))]]
    if t == 'RODelete':
        return [tag, {}, '', '', ro + list(op.get('extra', []))]
    # ---- roElementAction -------------------------------------------------
    level = OP_TABLE[t][3]
    tform = op.get('tform', 'id')
    target = []
    if level == 'story':
        if t == 'EAStoryDelete':
            tform = op.get('tform', 'absent')
        if tform == 'absent':
            target = []
        elif tform == 'blank':
            target = [['element_target', {}, '', '', [T('storyID', '')]]]
        else:
            target = [['element_target', {}, '', '', _idtag('storyID', op.get('target'))]]
        if t in ('EAStoryInsert', 'EAStoryReplace'):
            source = pay
        else:
            source = [x for s in src for x in _idtag('storyID', s)]
    else:
        tch = _idtag('storyID', op['story'])
        if t in ('EAItemInsert', 'EAItemReplace', 'EAItemMove'):
            tch = tch + _idtag('itemID', op.get('target'))
        target = [['element_target', {}, '', '', tch]]
        if t in ('EAItemInsert', 'EAItemReplace'):
            source = pay
        else:
            source = [x for s in src for x in _idtag('itemID', s)]
    return [tag, {'operation': operation}, '', '', ro + target
            + [['element_source', {}, '', '', source]]]


def document(op):
    """The complete <mos> document node of an op."""
    env = op.get('env', {})
    me = message_element(op)
    pre = [T('mosID', env.get('mosID', 'mos.sim'))]
    if env.get('ncsID', True):
        pre.append(T('ncsID', 'ncs.sim'))
    pad = env.get('mid_pad', ['', ''])
    mid = T('messageID', pad[0] + str(op['mid']) + pad[1])      # white space around the number is legal
    extra = [T(x, 'x') for x in env.get('extra', [])]
    if env.get('mid_after'):
        ch = pre + extra + [me, mid]
    else:
        ch = pre + [mid] + extra + [me]
    return ['mos', {}, '', '', ch]


def expected_class(op):
    """mosromgr class name an op's document must be classified as (None: UnknownMosFileType)."""
    if op['type'] == 'Raw':
        return op.get('expect_class')
    return OP_TABLE[op['type']][2]


def send_children(op):
    """children of the roStorySend element: the story's children with [i:j] wrapped into storyBody, roID at roid_pos"""
    i, j = op['body_span']
    ch = story_to_send_children(op['payload'][0], i, j)
    k = min(op.get('roid_pos', 0), len(ch))
    return ch[:k] + [T('roID', op.get('ro_id', 'RO1'))] + ch[k:]


def carried_nodes(op):
    """The story / item / metadata nodes an op carries, as they must appear in the running order."""
    pay = op.get('payload', [])
    if op['type'] == 'StorySend':
        # the sent element with the children of storyBody spliced in place and storyItem renamed item
        out = []
        for c in send_children(op):
            if c[0] == 'storyBody':
                for b in c[4]:
                    out.append(['item', b[1], b[2], b[3], b[4]] if b[0] == 'storyItem' else b)
            else:
                out.append(c)
        st = pay[0]
        return [['story', st[1], st[2], st[3], out]]
    return pay
