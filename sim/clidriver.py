"""CLI driver: `mosromgr detect | inspect | merge` against the simulated store (C19)."""
import contextlib
import io
import os
import sys
import warnings

from .collection import _accept_expected, _fold, _store_steps


def plan_cli(steps, R, P, faulty):
    st = _store_steps(steps)
    n = len(st)
    for _ in range(R.choice([1, 2, 2, 3])):
        cmd = R.choice(['detect', 'inspect', 'merge', 'merge'])
        if cmd in ('detect', 'inspect'):
            k = R.randint(1, min(n, 6))
            files = [{'i': i} for i in R.sample(range(n), k)]
            if faulty or R.random() < 0.3:
                for _f in range(R.choice([1, 1, 2])):
                    bad = R.choice([{'bad': 'missing'}, {'bad': 'dir'}, {'bad': 'garbage'}, {'bad': 'unknown'},
                                    {'bad': 'eacces'}, {'bad': 'eio', 'after': R.randint(0, 200)}, {'bad': 'empty'}])
                    files.insert(R.randint(0, len(files)), bad)
            if R.random() < 0.35:
                # the running order as merged so far, written out (completed once the roDelete has arrived)
                files.insert(R.randint(0, len(files)), {'state': True})
            src = R.choice(['files', 'files', 'files', 's3-prefix', 's3-key'])
            steps.append({'k': 'cli', 'cmd': cmd, 'files': files, 'src': src, 'page_size': R.randint(1, 5),
                          'suffix': R.choice([None, None, '.mos.xml', '.xml'])})
        else:
            usable = [i for i, s in enumerate(st) if s['op']['type'] != 'Raw' and not s.get('corrupt') and not s['op'].get('malformed')]      # incl. re-sent messages with equal ids
            sel = list(usable)
            kind = R.choice(['plain', 'plain', 'plain', 'no-create', 'no-delete', 'subset', 'bad-input', 'bad-output', 'none', 'dup-path', 'dup-path'])
            if kind == 'no-create':
                sel = [i for i in sel if st[i]['op']['type'] != 'ROCreate']
            elif kind == 'no-delete':
                sel = [i for i in sel if st[i]['op']['type'] != 'RODelete']
            elif kind == 'subset' and len(sel) > 1:
                sel = sorted(R.sample(sel, max(1, len(sel) - R.randint(1, 2))))
            elif kind == 'none':
                sel = []
            if kind == 'dup-path' and sel:
                sel = sel + [R.choice(sel)]        # the same path listed twice
            R.shuffle(sel)
            files = [{'i': i} for i in sel]
            if kind == 'bad-input':
                files.insert(R.randint(0, len(files)), R.choice([{'bad': 'missing'}, {'bad': 'garbage'}, {'bad': 'unknown'},
                                                                  {'bad': 'eacces'}, {'bad': 'dir'}]))
            out = None
            if R.random() < 0.5:
                out = {'name': 'merged-out.xml'}      # every merge of a run writes to the same file
                if kind == 'bad-output':
                    out['fault'] = R.choice([{'kind': 'nodir'}, {'kind': 'enospc', 'after': R.randint(0, 50)}, {'kind': 'eacces'}])
            steps.append({'k': 'cli', 'cmd': 'merge', 'files': files, 'kind': kind, 'incomplete': R.random() < 0.5,
                          'non_strict': R.random() < 0.5, 'out': out, 'src': R.choice(['files', 'files', 's3-prefix']),
                          'suffix': R.choice([None, None, '.mos.xml']), 'page_size': R.randint(1, 5)})


def _call_main(argv):
    import mosromgr.cli as CLI
    out, err = io.StringIO(), io.StringIO()
    rv, exc = None, None
    with contextlib.redirect_stdout(out), contextlib.redirect_stderr(err):
        try:
            rv = CLI.main(argv)
        except SystemExit as e:
            rv = ('exit', e.code)
        except Exception as e:    # noqa
            exc = e
    return rv, exc, out.getvalue(), err.getvalue()


def _materialise_files(run, step, tag):
    """-> list of dicts {'path','key','ent','bad','fault'} in the listed order"""
    out = []
    for n, f in enumerate(step['files']):
        if 'i' in f:
            if f['i'] >= len(run.store):
                continue
            e = run.store[f['i']]
            out.append({'path': e['path'], 'key': e['key'], 'ent': e, 'bad': None, 'data': e['data']})
            continue
        if f.get('state'):
            if run.P is None:
                continue
            try:
                data = str(run.P).encode('utf-8')
            except Exception:    # noqa - C14 judges a running order that cannot be written out
                continue
            key = 'cli%s-%d-state.mos.xml' % (tag, n)
            out.append({'path': run.fs.write(key, data), 'key': key, 'ent': None, 'bad': None, 'data': data})
            if run.completed:
                run.probes['cli-completed-state-file'] += 1
            continue
        bad = f['bad']
        key = 'cli%s-%d-%s.mos.xml' % (tag, n, bad)
        d = {'key': key, 'ent': None, 'bad': bad, 'data': None}
        if bad == 'missing':
            d['path'] = run.fs.path(key)
        elif bad == 'dir':
            d['path'] = run.fs.mkdir(key)
        elif bad in ('garbage', 'empty', 'unknown'):
            d['data'] = {'garbage': b'<mos><roCreate></mos>', 'empty': b'', 'unknown': b'<mos><mosID>x</mosID><heartbeat/></mos>'}[bad]
            d['path'] = run.fs.write(key, d['data'])
        else:   # eacces / eio on an otherwise fine file
            src = run.store[0]
            d['data'] = src['data']
            d['path'] = run.fs.write(key, src['data'])
            # the I/O error must actually be met: it strikes before the last byte of the file
            d['fault'] = {'kind': 'eacces'} if bad == 'eacces' else {'kind': 'eio', 'after': min(f.get('after', 0), max(0, len(src['data']) - 1))}
        out.append(d)
    return out


def _library_view(run, f):
    """what the library itself says about a file: ('ok', obj) | ('invalid', exc) | ('unreadable', exc)"""
    import mosromgr.mostypes as MT
    from mosromgr import exc as MX
    if f.get('fault') or f['bad'] in ('missing', 'dir'):
        return ('unreadable', None)
    try:
        return ('ok', MT.MosFile.from_string(f['data']))
    except MX.MosRoMgrException as e:
        return ('invalid', e)
    except Exception as e:    # noqa - the library itself fails on this document (C08 / C12 judge that): not judged here
        return ('skip', e)


def _inspect_text(obj):
    buf = io.StringIO()
    try:
        with contextlib.redirect_stdout(buf):
            obj.inspect()
    except Exception as e:    # noqa
        return None
    return buf.getvalue()


def do_cli(run, step):
    cmd = step['cmd']
    tag = '%d' % run.step_i
    files = _materialise_files(run, step, tag)
    src = step.get('src', 'files')
    sig = {'cmd': cmd, 'src': src, 'bads': sorted({f['bad'] for f in files if f['bad']})}
    add = lambda clause, detail: run.add(clause, detail, None, dict(sig))
    run.stats['cli.' + cmd] += 1
    old_page = run.s3.page_size
    run.s3.page_size = step.get('page_size', 1000)
    try:
        if cmd in ('detect', 'inspect'):
            _detect(run, step, files, src, add, tag, sig)
        else:
            _merge(run, step, files, src, add, tag, sig)
    finally:
        run.s3.page_size = old_page
        for f in files:
            if f.get('fault'):
                run.fs.set_fault(f['path'], None)


def _detect(run, step, files, src, add, tag, sig):
    cmd = step['cmd']
    names = []
    if src == 'files':
        for f in files:
            if f.get('fault'):
                run.fs.set_fault(f['path'], f['fault'])
        names = [f['path'] for f in files]
        argv = [cmd, '-f'] + names
        seq = files
    else:
        # S3: only stored objects can be listed; unreadable = a key whose download fails
        prefix = 'cli-%s/' % tag
        seq = []
        for f in files:
            if f['bad'] in ('missing', 'dir'):
                continue
            key = prefix + f['key']
            if f['data'] is not None:
                run.s3.put(run.bucket, key, f['data'])
            if f.get('fault'):
                run.s3.get_faults[(run.bucket, key)] = 'AccessDenied'
            seq.append(dict(f, name=key))
        if src == 's3-key':
            seq = seq[:1]
            if not seq:
                return
            argv = [cmd, '-b', run.bucket, '-k', seq[0]['name']]
        else:
            seq.sort(key=lambda f: f['name'].encode('utf-8'))
            suffix = step.get('suffix')
            argv = [cmd, '-b', run.bucket, '-p', prefix] + (['-s', suffix] if suffix else [])
            seq = [f for f in seq if f['name'].endswith(suffix or '.mos.xml')]
        names = [f['name'] for f in seq]
    rv, exc, out, err = _call_main(argv)
    run.event(run.step_i, 'cli', cmd, src, repr(rv), out.count('\n'), err.count('\n'), type(exc).__name__)
    for f in seq:
        if src != 'files' and f.get('fault'):
            run.s3.get_faults.pop((run.bucket, f['name']), None)
    run.cov.add(('cli', cmd, src, tuple(sig['bads']), len(seq) > 1))
    if exc is not None:
        add('C19.%s' % cmd, '%s escaped from the command line: %s' % (type(exc).__name__, exc))
        return
    # every classifiable file is reported, in order, whatever precedes it
    pos = 0
    lines = out.split('\n')
    for f, name in zip(seq, names):
        view = _library_view(run, f)
        if view[0] == 'skip':
            continue
        if view[0] == 'ok':
            obj = view[1]
            cls = type(obj).__name__
            completed = bool(getattr(obj, 'completed', False))
            if src == 's3-prefix':
                pos = 0     # the order of a bucket listing is whatever the listing returns: not judged
            hit = None
            for k in range(pos, len(lines)):
                if name in lines[k] and cls in lines[k]:
                    hit = k
                    break
            if hit is None:
                add('C19.%s' % cmd, '%s: classifiable file #%d (%s%s) is not reported on stdout (return value %r, stderr %r)' % (
                    cmd, seq.index(f), cls, ', after %s' % sig['bads'] if sig['bads'] else '', rv, err[-200:]))
                return
            if ('(completed)' in lines[hit]) != completed:
                add('C19.%s' % cmd, '%s: completed=%r but the line reads %r' % (cmd, completed, lines[hit]))
            pos = hit + 1
            if cmd == 'inspect':
                want = _inspect_text(obj)
                if want is not None:
                    rest = '\n'.join(lines[(0 if src == 's3-prefix' else pos):])
                    if want.strip('\n') not in rest:
                        add('C19.inspect', 'inspect: the outline of file #%d (%s) is not what the library prints' % (seq.index(f), cls))
                    else:
                        pos += len(want.strip('\n').split('\n'))
        else:
            if name not in err and name not in out:
                add('C19.%s' % cmd, '%s: bad file %r (%s) is not marked at all' % (cmd, os.path.basename(name), f['bad'] or view[0]))
            elif name in out and any(name in l and 'nvalid' not in l and 'rror' not in l for l in lines):
                add('C19.%s' % cmd, '%s: bad file %r (%s) is reported as if it were classifiable' % (cmd, os.path.basename(name), f['bad'] or view[0]))


def _merge(run, step, files, src, add, tag, sig):
    import mosromgr.moscollection as MC
    from mosromgr import exc as MX
    incomplete, non_strict, out = step['incomplete'], step['non_strict'], step.get('out')
    sig.update({'incomplete': incomplete, 'non_strict': non_strict, 'out': bool(out), 'kind': step.get('kind'),
                'out_fault': (out or {}).get('fault', {}).get('kind') if out else None})
    argv = ['merge']
    if src != 'files':
        # a bucket holds one object per key: listing a file twice means nothing there
        seen = set()
        files = [f for f in files if not (f['key'] in seen or seen.add(f['key']))]
        # ... and the order in which a listing hands over messages with EQUAL ids is the library's own business:
        # only one message per id goes into the bucket
        seen_mid = set()
        files = [f for f in files if f['bad'] or not (f['ent']['mid'] in seen_mid or seen_mid.add(f['ent']['mid']))]
    good = [f for f in files if not f['bad']]
    bad = [f for f in files if f['bad']]
    if src == 'files':
        for f in files:
            if f.get('fault'):
                run.fs.set_fault(f['path'], f['fault'])
        if files:
            argv += ['-f'] + [f['path'] for f in files]
    else:
        prefix = 'cli-%s/' % tag
        suffix = step.get('suffix')
        for f in files:
            if f['data'] is not None:
                run.s3.put(run.bucket, prefix + f['key'], f['data'])
        run.s3.put(run.bucket, prefix + 'notes.txt', b'ignore me')
        argv += ['-b', run.bucket, '-p', prefix] + (['-s', suffix] if suffix else [])
        bad = [f for f in bad if f['data'] is not None]      # missing paths / directories do not exist in a bucket
        for f in bad:
            if f.get('fault'):
                run.s3.get_faults[(run.bucket, prefix + f['key'])] = 'AccessDenied'
    if incomplete:
        argv.append('-i')
    if non_strict:
        argv.append('-n')
    outpath = None
    if out:
        outpath = run.fs.path(out['name'])
        fault = out.get('fault')
        if fault:
            if fault['kind'] == 'nodir':
                outpath = run.fs.path(os.path.join('no-such-dir-%s' % tag, out['name']))
            elif fault['kind'] == 'eacces':
                run.fs.set_fault(outpath, {'kind': 'eacces'})
            else:
                run.fs.set_fault(outpath, {'kind': 'enospc', 'after': fault.get('after', 0)})
        argv += ['-o', outpath]
    fired0 = sum(run.fs.fired.values()) + sum(run.s3.fired.values())
    previous = None
    if outpath and not (out or {}).get('fault') and os.path.isfile(outpath):
        with open(outpath, 'rb') as fh:
            previous = fh.read()
    rv, exc, sout, serr = _call_main(argv)
    run.event(run.step_i, 'cli', 'merge', src, repr(rv), bool(serr.strip()), type(exc).__name__)
    fired = sum(run.fs.fired.values()) + sum(run.s3.fired.values()) > fired0
    if outpath:
        run.fs.set_fault(outpath, None)
    for f in bad:
        run.s3.get_faults.pop((run.bucket, 'cli-%s/' % tag + f['key']), None)
    run.cov.add(('cli', 'merge', src, step.get('kind'), incomplete, non_strict, bool(out), sig['out_fault']))
    if exc is not None:
        add('C19.merge', '%s escaped from the command line: %s' % (type(exc).__name__, exc))
        return
    # ---- what the library computes -----------------------------------------------------------------
    expect_error = None
    lib_text = None
    if not files:
        expect_error = 'no input'
    elif bad:
        expect_error = 'bad input (%s)' % ', '.join(sorted({f['bad'] for f in bad}))
    else:
        ops_sel = [f['ent']['op'] for f in good]
        ok, why = _accept_expected(ops_sel, incomplete)
        if not ok:
            expect_error = 'invalid collection (%s)' % why
        else:
            try:
                mc = MC.MosCollection.from_strings([f['data'] for f in good], allow_incomplete=incomplete)
            except Exception:    # noqa - the library cannot build what it should accept (C11 judges that): nothing to compare with
                return
            with warnings.catch_warnings():
                warnings.simplefilter('ignore')
                try:
                    mc.merge(strict=not non_strict)
                    lib_text = str(mc)
                except MX.MosMergeError as e:
                    expect_error = 'merge error (%s)' % type(e).__name__
                except Exception as e:    # noqa - a defect of the merge itself (C12), not of the CLI
                    return
            if lib_text is not None and out and out.get('fault'):
                expect_error = 'unwritable output (%s)' % out['fault']['kind']
                if out['fault']['kind'] in ('eacces', 'enospc') and not fired:
                    expect_error = None     # the configured fault was never reached: fault-free behaviour expected
    if expect_error:
        if previous is not None:
            # the result of an earlier successful merge is still there: a failing merge must not destroy it
            run.probes['failed-merge-over-existing-output'] += 1
            try:
                with open(outpath, 'rb') as fh:
                    now = fh.read()
            except OSError:
                now = None
            if now != previous:
                add('C19.merge', 'merge failed (%s, exit %r) but clobbered the existing output file (%s bytes -> %s)' % (
                    expect_error, rv, len(previous), 'missing' if now is None else len(now)))
        if rv != 2:
            add('C19.merge', 'merge with %s returned %r instead of exit status 2 (stderr %r)' % (expect_error, rv, serr[-200:]))
        elif not serr.strip():
            add('C19.merge', 'merge with %s exited 2 without a message on stderr' % expect_error)
        return
    if rv not in (None, 0):
        add('C19.merge', 'merge of a valid collection returned %r (stderr %r)' % (rv, serr[-300:]))
        return
    if outpath:
        try:
            with open(outpath, 'rb') as fh:
                written = fh.read().decode('utf-8')
        except OSError as e:
            add('C19.merge', 'merge reported success but the output file cannot be read: %s' % e)
            return
        if written != lib_text:
            add('C19.merge', 'the -o file differs from the library\'s merged running order (%d vs %d characters)' % (len(written), len(lib_text)))
    else:
        if sout.rstrip('\n') != lib_text.rstrip('\n'):
            add('C19.merge', 'stdout differs from the library\'s merged running order (%d vs %d characters)' % (len(sout), len(lib_text)))
