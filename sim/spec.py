"""Relational step specification (DESIGN.md 6.2): the oracle for one `ro += msg`.

``judge(A, op, out, B)`` returns a list of ``(clause, detail)`` violations.

* ``A`` / ``B``  canon of the <mos> document before / after the step
* ``op``         the abstract operation the NCS put into the message
* ``out``        {'exc': None | class name, 'merge_error': bool, 'completed_error': bool,
                  'injected': bool, 'warnings': [category names], 'same': bool (str(ro) unchanged),
                  'result_ok': bool}

Nothing here calls mosromgr.  Resolution of references is decided on ``A`` by ID
equality inside the addressed parent.  The relation accepts every outcome the
properties leave open (warn *or* raise; blank = end *or* rejected; free placement
relative to non-story metadata) and nothing else.
"""
from collections import Counter

from .xmlmodel import (RoView, canon, notail, child, child_text, children, items_of,
                       item_ids, unique_item_ids)
from .ops import OP_TABLE, carried_nodes

SNF, INF, DUP = 'StoryNotFoundWarning', 'ItemNotFoundWarning', 'DuplicateStoryWarning'
MOS_WARNINGS = (SNF, INF, DUP, 'MosMergeNonStrictWarning', 'MosRoMgrWarning')


def _sid(c):
    return child_text(c, 'storyID')


def _iid(c):
    return child_text(c, 'itemID')


def _mkey(c):
    if c[0] == 'mosExternalMetadata':
        return (c[0], child_text(c, 'mosSchema'))
    return (c[0], None)


def seq_insert(seq, target, new):
    if target is None:
        return list(seq) + list(new)
    i = seq.index(target)
    return list(seq[:i]) + list(new) + list(seq[i:])


def seq_move(seq, target, srcs):
    rest = [x for x in seq if x not in srcs]
    if target is not None and target not in rest:
        return None         # degenerate: the target is one of the sources
    return seq_insert(rest, target, srcs)


class Analysis:
    """What an op means against state A (sequence level, one container)."""

    def __init__(self):
        self.suspended = None      # reason ID-addressed clauses cannot be evaluated
        self.anchor_missing = []   # [(category, what)] unresolved container / target
        self.unresolved = []       # [category] per unresolved source element (must be reported)
        self.optional = 0          # extra not-found warnings tolerated (repeats, blank list entries)
        self.dups = []             # carried story ids skipped as duplicates
        self.degenerate = False
        self.blank_end = False     # blank/absent target: 'end' or rejection both acceptable
        self.dup_or_apply = False  # append/replace colliding with existing ids: skip-with-warning or apply
        self.expected = None       # expected id sequence when applied (with the resolved sources)
        self.named = set()         # ids named or carried (excluded from the frame)
        self.carried = {}          # id -> canon payload expected in B
        self.carried_at = []       # [(index in the expected sequence, canon)]
        self.moved = []            # ids whose element must survive with identical content
        self.noop_if_all_unresolved = True


def _classify_list(srcs, seq, cat, an, extra_taken=()):
    """split a list of named source references into resolved ids (in order) and unresolved"""
    resolved = []
    seen = set(extra_taken)
    for s in srcs:
        if s is None or s is False:
            an.optional += 1          # a blank entry names nothing: a report is tolerated, not demanded
            continue
        if s in seen:
            an.degenerate = True
            an.optional += 1
            continue
        seen.add(s)
        an.named.add(s)
        if s in seq:
            resolved.append(s)
        else:
            an.unresolved.append(cat)
    return resolved


def analyse(op, seq, level, carried_nodes):
    """seq: ids in the addressed container of A (stories of the RO / items of the story)."""
    t = op['type']
    an = Analysis()
    cat = SNF if level == 'story' else INF
    idf = _sid if level == 'story' else _iid
    carried = [canon(n) for n in carried_nodes]
    cids = [idf(c) for c in carried]
    target = op.get('target')
    tform = op.get('tform', 'id')
    base = t[2:] if t.startswith('EA') else t
    kind = {'StoryAppend': 'append', 'StoryInsert': 'insert', 'StoryReplace': 'replace',
            'StoryMove': 'move', 'StoryDelete': 'delete', 'StorySend': 'send', 'StorySwap': 'swap',
            'ItemInsert': 'insert', 'ItemReplace': 'replace', 'ItemMoveMultiple': 'move',
            'ItemMove': 'move', 'ItemDelete': 'delete', 'ItemSwap': 'swap'}[base]
    an.kind = kind
    srcs = op.get('sources', [])

    def resolve_target(blank_means_end):
        """-> ('id', x) | ('end',) | ('missing',)"""
        if tform in ('blank', 'absent') or target is None or target is False:
            if blank_means_end:
                an.blank_end = True
                return ('end',)
            an.anchor_missing.append((cat, 'blank target'))
            return ('missing',)
        an.named.add(target)
        if target in seq:
            return ('id', target)
        an.anchor_missing.append((cat, 'unknown target'))
        return ('missing',)

    if kind == 'append':
        for c, i in zip(carried, cids):
            an.named.add(i)
            an.carried[i] = c
        if any(i in seq for i in cids) or len(set(cids)) < len(cids):
            an.dup_or_apply = True
        an.expected = list(seq) + cids
        an.carried_at = [(len(seq) + k, c) for k, c in enumerate(carried)]
    elif kind == 'insert':
        tg = resolve_target(blank_means_end=True)
        new = []
        newc = []
        for c, i in zip(carried, cids):
            an.named.add(i)
            if level == 'story' and i in seq:
                an.dups.append(i)
            elif level == 'story' and i in new:
                an.dup_or_apply = True      # the message repeats an id: inserting or skipping the repeat is accepted
            else:
                if i in seq or i in new:
                    an.dup_or_apply = True
                new.append(i)
                newc.append(c)
                an.carried[i] = c
        if tg[0] != 'missing':
            an.expected = seq_insert(seq, tg[1] if tg[0] == 'id' else None, new)
            start = seq.index(tg[1]) if tg[0] == 'id' else len(seq)
            an.carried_at = [(start + k, c) for k, c in enumerate(newc)]
    elif kind == 'replace':
        tg = resolve_target(blank_means_end=False)
        for c, i in zip(carried, cids):
            an.named.add(i)
            an.carried[i] = c
        if tg[0] == 'id':
            rest = [x for x in seq if x != tg[1]]
            if any(i in rest for i in cids) or len(set(cids)) < len(cids):
                an.dup_or_apply = True
            i = seq.index(tg[1])
            an.expected = list(seq[:i]) + cids + list(seq[i + 1:])
            an.carried_at = [(i + k, c) for k, c in enumerate(carried)]
    elif kind == 'send':
        sid = cids[0]
        an.named.add(sid)
        an.carried[sid] = carried[0]
        if sid in seq:
            an.expected = list(seq)
            an.carried_at = [(seq.index(sid), carried[0])]
        else:
            an.anchor_missing.append((SNF, 'unknown story'))
    elif kind == 'move':
        single = (t == 'StoryMove')
        if single:
            tg = resolve_target(blank_means_end=True) if (target is None or target is False) else resolve_target(False)
        elif t == 'EAItemMove' or t == 'ItemMoveMultiple' or t == 'EAStoryMove':
            tg = resolve_target(blank_means_end=True)
        resolved = _classify_list(srcs, seq, cat, an)
        if tg[0] == 'id' and tg[1] in resolved:
            an.degenerate = True
        an.moved = list(resolved)
        if tg[0] != 'missing':
            an.expected = seq_move(seq, tg[1] if tg[0] == 'id' else None, resolved)
    elif kind == 'delete':
        resolved = _classify_list(srcs, seq, cat, an)
        an.expected = [x for x in seq if x not in resolved]
    elif kind == 'swap':
        resolved = _classify_list(srcs, seq, cat, an)
        if len(srcs) != 2:
            an.suspended = 'swap without exactly two ids'
        elif an.degenerate or None in srcs or False in srcs:
            an.degenerate = True
        elif len(resolved) == 2:
            a, b = resolved
            an.moved = [a, b]
            e = list(seq)
            ia, ib = e.index(a), e.index(b)
            e[ia], e[ib] = e[ib], e[ia]
            an.expected = e
        else:
            # a swap with a missing operand cannot be partially applied
            an.anchor_missing.append((cat, 'swap operand'))
            an.anchor_extra = max(0, len(an.unresolved) - 1)
            an.unresolved = []
    return an


def _frame_top(view, named):
    return [x for x in view.top if not (x[0] == 'story' and _sid(x) in named)]


def _frame_story(st, named):
    return [x for x in st[4] if not (x[0] == 'item' and _iid(x) in named)]


def judge(A, op, out, B):
    V = []
    add = lambda clause, detail='': V.append((clause, detail))
    t = op['type']
    level = OP_TABLE[t][3]
    va, vb = RoView(A), RoView(B)
    prop_order = 'C01.order' if level == 'story' else 'C02.order'
    prop_cons = 'C01.conserve' if level == 'story' else 'C02.conserve'
    mosw = [w for w in out['warnings'] if w in MOS_WARNINGS]

    # ---- completion is terminal (C07) ---------------------------------------
    if va.metas:
        if not out['completed_error']:
            add('C07.terminal', 'message type %s after completion: %s' % (t, out['exc'] or 'accepted'))
        if not out['same'] or A != B:
            add('C07.terminal-changed', 'running order changed by %s after completion' % t)
        return V
    if out['completed_error']:
        add('C07.never-completed', 'MosCompletedMergeError on a running order that received no roDelete')

    # ---- exception class (C12) and atomicity (C05) ----------------------------
    if out['exc'] is not None:
        if not out['merge_error'] and not out['injected'] and not op.get('malformed'):
            add('C12.exc', '%s escaped from merging %s' % (out['exc'], t))
        if not out['same'] or A != B:
            add('C05.atomic', 'running order changed although merging %s raised %s' % (t, out['exc']))
    elif not out['result_ok']:
        add('C12.exc', 'merge of %s did not return the running order' % t)

    if op.get('malformed'):
        # a message that is not schema-shaped: the properties only say that a raising merge changes nothing
        # and that nothing but a roDelete completes a running order
        if vb.metas and t != 'RODelete':
            add('C07.never-completed', 'completed after a malformed %s' % t)
        return V
    if op.get('foreign') and out['merge_error'] and out['same'] and A == B:
        return V        # refusing a message addressed to another running order is accepted

    # ---- envelope (part of the frame) ----------------------------------------
    if va.envelope != vb.envelope or vb.n_rc != 1:
        add('C03.frame', 'envelope changed by %s' % t)

    if level in ('story', 'item'):
        _judge_seq(va, vb, op, out, level, mosw, add, prop_order, prop_cons)
    elif level == 'meta':
        _judge_meta(va, vb, op, out, mosw, add)
    elif level == 'ro':
        _judge_roreplace(va, vb, op, out, mosw, add)
    elif level == 'end':
        _judge_end(va, vb, op, out, mosw, add)
    else:  # roReadyToAir: names nothing
        if out['exc'] is None:
            it = iter(vb.top)
            if not all(any(x == y for y in it) for x in va.top) or len(vb.stories()) != len(va.stories()):
                add('C03.frame', 'roReadyToAir changed existing content')
            if mosw:
                add('C06.spurious', 'warning %s from a fully applied roReadyToAir' % mosw)
        if vb.metas:
            add('C07.never-completed', 'completed after %s' % t)
    return V


def _judge_seq(va, vb, op, out, level, mosw, add, prop_order, prop_cons):
    t = op['type']
    raised = out['exc'] is not None
    carried_nodes_ = carried_nodes(op)
    if vb.metas:
        add('C07.never-completed', 'completed after %s' % t)
    # ---- locate the container ---------------------------------------------------
    if level == 'story':
        if not va.unique_story_ids():
            return _suspended(va, vb, op, out, level, add, prop_cons)
        seqA, seqB = va.story_ids(), vb.story_ids()
        an = analyse(op, seqA, 'story', carried_nodes_)
        contA = contB = None
    else:
        if not va.unique_story_ids():
            return _suspended(va, vb, op, out, level, add, prop_cons)
        sref = op.get('story')
        stA = va.story(sref) if isinstance(sref, str) else None
        if stA is None:
            # container not found: nothing may change
            n_items = len(op.get('sources', []) or op.get('payload', []))
            return _anchor_missing(va, vb, op, out, mosw, add, [(SNF, 'story')], extra_ok=(INF, n_items))
        if not unique_item_ids(stA):
            return _suspended(va, vb, op, out, level, add, prop_cons)
        idx = va.top.index(stA)
        # every other child of roCreate is untouched and the story keeps its place
        if len(vb.top) != len(va.top) or any(i != idx and x != y for i, (x, y) in enumerate(zip(va.top, vb.top))) \
                or vb.top[idx][0] != 'story' or _sid(vb.top[idx]) != sref:
            add('C03.frame', '%s changed something outside story %r' % (t, sref))
            return
        stB = vb.top[idx]
        seqA, seqB = item_ids(stA), item_ids(stB)
        an = analyse(op, seqA, 'item', carried_nodes_)
        contA, contB = stA, stB

    if an.suspended:
        return

    # conservation for moves and swaps, whatever the input / outcome (C01 / C02)
    if an.kind in ('move', 'swap') and Counter(seqA) != Counter(seqB):
        add(prop_cons, '%s changed the multiset of ids: %r -> %r' % (t, seqA, seqB))

    # ---- frame (C03): everything not named keeps content and relative order ------
    if level == 'story':
        fa, fb = _frame_top(va, an.named), _frame_top(vb, an.named)
    else:
        fa, fb = _frame_story(contA, an.named), _frame_story(contB, an.named)
    if fa != fb:
        add('C03.frame', '%s altered content it does not name' % t)
    byA = {(_sid(x) if level == 'story' else _iid(x)): x for x in (va.stories() if level == 'story' else items_of(contA))}
    listB = vb.stories() if level == 'story' else items_of(contB)
    byB = {}
    for x in listB:
        byB.setdefault(_sid(x) if level == 'story' else _iid(x), x)

    if an.anchor_missing:
        return _anchor_missing(va, vb, op, out, mosw, add, an.anchor_missing,
                               extra_ok=(an.anchor_missing[0][0], getattr(an, 'anchor_extra', 0) + an.optional))

    if raised:
        if not out['merge_error']:
            if not (an.unresolved or an.dups or an.degenerate or an.dup_or_apply or an.optional or out['injected']):
                # the protocol's result was not produced (C12 reports the exception class itself)
                add(prop_order, 'resolvable %s crashed with %s instead of being applied' % (t, out['exc']))
            return
        # a MosMergeError is acceptable iff something is wrong with the message
        if not (an.unresolved or an.dups or an.degenerate or an.blank_end or an.dup_or_apply or an.optional):
            add(prop_order, 'resolvable %s refused: %s' % (t, out['exc']))
        return

    if an.degenerate:
        # any conserving outcome is acceptable; for non-move kinds only the frame is checked
        return

    # ---- warnings (C06) -------------------------------------------------------------
    want = Counter(an.unresolved) + Counter({DUP: len(an.dups)} if an.dups else {})
    got = Counter(mosw)
    cat = SNF if level == 'story' else INF
    ok_w = all(got[k] == want[k] for k in set(got) | set(want) if k != cat and k != DUP) \
        and want[cat] <= got[cat] <= want[cat] + an.optional
    if an.dup_or_apply:
        ok_w = ok_w and got[DUP] <= want[DUP] + len(carried_nodes_)
    else:
        ok_w = ok_w and got[DUP] == want[DUP]
    if not ok_w:
        if not want and not an.optional:
            add('C06.spurious', '%s fully applied but warned %s' % (t, dict(got)))
        elif sum(got.values()) == 0:
            add('C06.silent', '%s: %s not reported' % (t, dict(want)))
        else:
            add('C06.count', '%s: warnings %s, expected %s' % (t, dict(got), dict(want)))

    # ---- order (C01 / C02) -------------------------------------------------------------
    if an.dup_or_apply and seqB == an.expected and got[DUP]:
        add('C06.spurious', '%s applied every carried element but warned %s' % (t, dict(got)))
    if seqB != an.expected:
        if an.dup_or_apply:
            # colliding carried ids may be skipped instead - but then each skipped one is reported
            n_skipped = len(an.expected) - len(seqB)
            if n_skipped > 0 and got[DUP] != n_skipped and sum(1 for x in seqB if x not in seqA) < len(carried_nodes_):
                add('C06.silent' if not got[DUP] else 'C06.count',
                    '%s skipped %d carried element(s) whose id is already there, DuplicateStoryWarning x %d' % (t, n_skipped, got[DUP]))
            return
        if an.unresolved or an.dups:
            # C01 / C02 speak of messages whose references resolve; what happens to the remaining elements of a
            # message with an unresolvable element is C06's business
            add('C06.rest', '%s: with %s the remaining elements were not applied as they should: %r -> %r, expected %r' % (
                t, 'an unresolvable element' if an.unresolved else 'a duplicate story', seqA, seqB, an.expected))
            if not an.unresolved:
                # every reference resolves; only carried duplicates are skipped: where the others land is C01's too
                add(prop_order, '%s (with skipped duplicates): %r -> %r, expected %r' % (t, seqA, seqB, an.expected))
        else:
            missing_carried = [i for i in an.carried if i not in seqB]
            if missing_carried:
                add('C04.payload', '%s: carried %s %r does not appear in the running order' % (t, level, missing_carried))
            ignored = _ignored(seqA, seqB, an, op)
            if ignored:
                add('C06.all-ids', '%s: listed id(s) %r were not acted upon: %r -> %r' % (t, ignored, seqA, seqB))
            add(prop_order, '%s: %r -> %r, expected %r' % (t, seqA, seqB, an.expected))
        return

    # ---- payload (C04) and content of moved elements (C03) -----------------------------
    for k, c in an.carried_at:
        got_el = listB[k] if k < len(listB) else None
        if got_el is None or notail(got_el) != notail(c):
            add('C04.payload', '%s: carried %s %r does not arrive intact' % (t, level, (_sid(c) if level == 'story' else _iid(c))))
    for i in an.moved:
        if i in byA and i in byB and notail(byA[i]) != notail(byB[i]):
            add('C03.frame', '%s altered the content of moved %s %r' % (t, level, i))
    for i in an.dups:
        if i in byA and byB.get(i) != byA[i]:
            add('C03.frame', '%s altered existing story %r while skipping a duplicate' % (t, i))


def _ignored(seqA, seqB, an, op):
    """listed, resolvable ids of a multi-id message that demonstrably were not acted upon"""
    srcs = [x for x in op.get('sources', []) if isinstance(x, str) and x in seqA]
    if len(srcs) < 2:
        return []
    if an.kind == 'delete':
        return [x for x in srcs if x in seqB]
    if an.kind == 'move':
        # the result is exactly what the message would give with some of the listed ids left out
        from itertools import combinations
        tgt = op.get('target') if isinstance(op.get('target'), str) and op.get('tform', 'id') == 'id' else None
        for n in range(len(srcs) - 1, -1, -1):
            for sub in combinations(srcs, n):
                if seq_move(seqA, tgt, list(sub)) == seqB:
                    return [x for x in srcs if x not in sub]
        return []
    return []


def _anchor_missing(va, vb, op, out, mosw, add, missing, extra_ok=(None, 0)):
    """container or target does not resolve: MosMergeError-unchanged, or unchanged + one warning"""
    t = op['type']
    level = OP_TABLE[t][3]
    if out['exc'] is not None:
        return          # class and atomicity were checked by the caller
    if va.root != vb.root:
        # which property: collateral edit (C03) - a reference that matches nothing changed something
        add('C03.frame', '%s with %s changed the running order' % (t, missing[0][1]))
        return
    got = Counter(mosw)
    cats = Counter(c for c, _ in missing)
    ok = True
    for k in set(got) | set(cats):
        lo = 1 if cats[k] else 0
        hi = cats[k] + (extra_ok[1] if extra_ok[0] == k else 0)
        if not (lo <= got[k] <= max(hi, lo)):
            ok = False
    if not ok:
        if sum(got.values()) == 0:
            add('C06.silent', '%s with %s was silently ignored' % (t, missing[0][1]))
        else:
            add('C06.count', '%s with %s: warnings %s' % (t, missing[0][1], dict(got)))


def _suspended(va, vb, op, out, level, add, prop_cons):
    """uniqueness of ids is lost: only id-free clauses are evaluated"""
    t = op['type']
    base = t[2:] if t.startswith('EA') else t
    if level == 'story' and base in ('StoryMove', 'StorySwap'):
        if Counter(va.story_ids()) != Counter(vb.story_ids()):
            add(prop_cons, '%s changed the multiset of story ids' % t)
    add('~suspended', t)


def _judge_meta(va, vb, op, out, mosw, add):
    t = op['type']
    if vb.metas:
        add('C07.never-completed', 'completed after %s' % t)
    # the message element carries its roID child like any other metadata element
    carried = [canon(['roID', {}, op.get('ro_id', 'RO1'), '', []])] + [canon(n) for n in op.get('payload', [])]
    keys = [_mkey(c) for c in carried]
    K = set(keys)
    if out['exc'] is not None:
        if out['merge_error']:
            add('C04.payload', 'roMetadataReplace refused: %s' % out['exc'])
        return
    if mosw:
        add('C06.spurious', 'roMetadataReplace warned %s' % mosw)
    fa = [x for x in va.top if _mkey(x) not in K]
    fb = [x for x in vb.top if _mkey(x) not in K]
    if fa != fb:
        add('C03.frame', 'roMetadataReplace altered stories or metadata it does not carry')
    if len(set(keys)) == len(keys):
        for c, k in zip(carried, keys):
            hits = [x for x in vb.top if _mkey(x) == k]
            if len(hits) != 1 or notail(hits[0]) != notail(c):
                add('C04.payload', 'roMetadataReplace: carried %s %s not present exactly once with the sent content' % k)


def _judge_roreplace(va, vb, op, out, mosw, add):
    if vb.metas:
        add('C07.never-completed', 'completed after roReplace')
    if out['exc'] is not None:
        if out['merge_error']:
            add('C04.payload', 'roReplace refused: %s' % out['exc'])
        return
    if mosw:
        add('C06.spurious', 'roReplace warned %s' % mosw)
    want = tuple(canon(n) for n in op['payload'])
    if vb.rc is None or tuple(vb.top) != want:
        add('C04.payload', 'after roReplace the running-order content differs from the sent one')
    if vb.rc is not None and (vb.rc[1] != () and vb.rc[1] != va.rc[1]):
        pass


def _judge_end(va, vb, op, out, mosw, add):
    if out['exc'] is not None:
        if out['merge_error']:
            add('C07.complete', 'roDelete refused: %s' % out['exc'])
        return
    if mosw:
        add('C06.spurious', 'roDelete warned %s' % mosw)
    if va.rc != vb.rc:
        add('C07.content', 'roDelete changed the running-order content')
    if len(vb.metas) != 1:
        add('C07.complete', 'roDelete did not record exactly one completion record')
    else:
        rd = children(vb.metas[0], 'roDelete')
        want = canon(['roDelete', {}, '', '', [['roID', {}, op.get('ro_id', 'RO1'), '', []]] + list(op.get('extra', []))])
        if len(rd) != 1 or notail(rd[0]) != notail(want):
            add('C07.record', 'the completion record does not hold the sent roDelete')
