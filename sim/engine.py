"""Executor: runs one trace against the real mosromgr under the simulated world.

``execute(trace)`` is a pure function of the trace and of the code under test:
no PRNG, no clock, no ordering by id()/hash.  It returns a result dict with the
violations found (clause ids), the event log digest, coverage tuples and fault
counters.
"""
import contextlib
import hashlib
import io
import json
import os
import sys
import warnings
import logging
from collections import Counter

from . import ops as O
from .render import render, render_bytes
from .xmlmodel import canon_et, canon, digest, RoView, notail
from .spec import judge, MOS_WARNINGS
from .invariants import check_accessors, check_roundtrip, check_message
from .world import SimFS, SimS3, InjectedOSError

logging.disable(logging.CRITICAL)


class _LogSink(logging.Handler):
    """the host's log handler: formats every record and keeps nothing (and keeps logging.basicConfig from adding
    a stderr handler of its own)"""

    def emit(self, record):
        record.getMessage()


if not any(isinstance(h, _LogSink) for h in logging.getLogger().handlers):
    logging.getLogger().addHandler(_LogSink())


def set_logging(mode):
    root = logging.getLogger()
    for name in [None] + [n for n in logging.root.manager.loggerDict if n == 'mosromgr' or n.startswith('mosromgr.')]:
        lg = logging.getLogger(name)
        lg.setLevel(logging.NOTSET if name else logging.WARNING)
    if mode == 'debug':
        logging.disable(logging.NOTSET)
        root.setLevel(logging.DEBUG)
    elif mode == 'error':
        logging.disable(logging.NOTSET)
        root.setLevel(logging.ERROR)
    else:
        logging.disable(logging.CRITICAL)
HOST_FILTER = 'mosromgr-verif: a host application filter that never matches'

import mosromgr.mostypes as MT            # noqa: E402
import mosromgr.moscollection as MC       # noqa: E402
from mosromgr import exc as MX            # noqa: E402


_CODE_CACHE = {}
_MOD_ORDER = ['mosromgr.exc', 'mosromgr.utils.xml', 'mosromgr.utils.s3', 'mosromgr.utils', 'mosromgr.moselements',
              'mosromgr.mostypes', 'mosromgr.moscollection', 'mosromgr.cli']


def fresh_modules():
    """Re-execute the mosromgr modules in place so that module- and class-level state of one simulated run
    (caches, class attributes, default arguments) cannot leak into the next: one seed is one repeatable
    execution.  State carried *within* a run is kept - that is where the simulator looks for it."""
    import mosromgr.cli     # noqa - make sure everything is loaded
    names = [n for n in sys.modules if n == 'mosromgr' or n.startswith('mosromgr.')]
    extra = [n for n in names if n not in _MOD_ORDER and n != 'mosromgr']
    for n in extra + _MOD_ORDER:
        m = sys.modules.get(n)
        f = getattr(m, '__file__', None)
        if m is None or not f or not f.endswith('.py'):
            continue
        code = _CODE_CACHE.get(f)
        if code is None:
            with open(f, 'rb') as fh:
                code = _CODE_CACHE[f] = compile(fh.read(), f, 'exec')
        exec(code, m.__dict__)


def _perm(items, order):
    return [items[i] for i in order]


class Violation(dict):
    pass


class Run:
    def __init__(self, trace, props=None):
        self.tr = trace
        self.cfg = trace.get('config', {})
        self.V = []                 # violations
        self.log = []               # event log
        self.cov = set()            # coverage tuples
        self.stats = Counter()
        self.probes = Counter()
        self.fs = SimFS()
        self.s3 = SimS3(page_size=self.cfg.get('page_size', 1000))
        self.bucket = 'sim-bucket'
        self.prefix = self.cfg.get('prefix', 'ro/')
        self.store = []             # [{'key','path','data','text','op','mid','kind'}]
        self.step_i = -1
        self.msgs = []              # [(obj, snapshot str, op, step)] for C13
        self.P = self.Nn = self.T = self.D = self.DC = None

    # ---- bookkeeping -----------------------------------------------------
    def add(self, clause, detail='', op=None, extra=None):
        if clause.startswith('~'):
            self.stats[clause[1:]] += 1
            return
        sig = {'clause': clause}
        if op is not None:
            sig['type'] = op.get('type')
            sh = op.get('shapes') or {}
            for k in ('target', 'story', 'pos', 'dups'):
                if k in sh:
                    sig[k] = sh[k]
            if 'sources' in sh:
                sig['sources'] = sorted(set(sh['sources']))
                sig['n_sources'] = len(sh['sources'])
            if 'tform' in op:
                sig['tform'] = op['tform']
        if extra:
            sig.update(extra)
        self.V.append({'clause': clause, 'prop': clause.split('.')[0], 'step': self.step_i,
                       'detail': detail[:600], 'sig': sig})

    def adder(self, op=None, extra=None):
        return lambda clause, detail='': self.add(clause, detail, op, extra)

    def event(self, *rec):
        self.log.append(rec)

    # ---- rendering / store -------------------------------------------------
    def count_configured(self):
        for s in self.tr['steps']:
            if s.get('io'):
                self.stats['configured.io.' + s['io'].get('kind', '?')] += 1
            if s.get('corrupt'):
                self.stats['configured.corrupt.' + s['corrupt']['kind']] += 1
            if s.get('channel'):
                self.stats['configured.channel.' + s['channel']] += 1
            if s['k'] == 'restart':
                self.stats['configured.restart'] += 1
        self.stats['configured.channel.lost'] += len(self.tr.get('dropped', []))

    def materialise(self, step):
        """-> (text, data) of a message step, after store corruption"""
        op = step['op']
        doc = O.document(op)
        knobs = step.get('knobs', {})
        text = render(doc, knobs)
        data = render_bytes(doc, knobs)
        cor = step.get('corrupt')
        if cor:
            kind = cor['kind']
            if kind == 'truncate':
                data = data[:max(0, min(len(data) - 1, cor['at']))]
            elif kind == 'flip':
                at = cor['at'] % max(1, len(data))
                data = data[:at] + bytes([data[at] ^ cor.get('mask', 0x20)]) + data[at + 1:]
            elif kind == 'empty':
                data = b''
            elif kind == 'garbage':
                data = cor['bytes'].encode('latin-1')
            elif kind == 'prepend':
                data = cor['bytes'].encode('utf-8') + data
            self.stats['fault.corrupt.' + kind] += 1
            text = None
        return text, data

    def put(self, step, text, data):
        op = step['op']
        key = step.get('key') or '%d-%s.mos.xml' % (op['mid'], op['type'])
        path = self.fs.write(key, data)
        self.s3.put(self.bucket, self.prefix + key, data)
        ent = {'key': key, 'path': path, 'data': data, 'text': text, 'op': op, 'mid': op['mid'],
               'step': step, 's3key': self.prefix + key}
        self.store.append(ent)
        return ent

    # ---- parsing through a delivery path -----------------------------------
    def parse(self, ent, path, via, io_fault=None):
        """-> (obj, exc, injected)"""
        op = ent['op']
        cls = MT.MosFile
        if via == 'cls':
            name = O.expected_class(op)
            cls = getattr(MT, name, MT.MosFile) if name else MT.MosFile
        self.stats['path.' + path] += 1
        fired_before = sum(self.fs.fired.values()) + sum(self.s3.fired.values())
        try:
            if path == 'file':
                if io_fault:
                    self.fs.set_fault(ent['path'], io_fault)
                try:
                    obj = cls.from_file(ent['path'])
                finally:
                    if io_fault:
                        self.fs.set_fault(ent['path'], None)
            elif path == 'pathlib':
                import pathlib
                obj = cls.from_file(pathlib.Path(ent['path']))
            elif path == 's3':
                if io_fault:
                    self.s3.get_faults[(self.bucket, ent['s3key'])] = io_fault.get('code', 'InternalError')
                try:
                    obj = cls.from_s3(self.bucket, ent['s3key'])
                finally:
                    self.s3.get_faults.pop((self.bucket, ent['s3key']), None)
            elif path == 'bytes':
                obj = cls.from_string(ent['data'])
            else:
                # a corrupted object has no text form: it is handed over as the stored bytes
                obj = cls.from_string(ent['text'] if ent['text'] is not None else ent['data'])
            return obj, None, False
        except Exception as e:     # noqa
            fired = sum(self.fs.fired.values()) + sum(self.s3.fired.values()) > fired_before
            injected = fired and (isinstance(e, OSError) or type(e).__name__ == 'ClientError')
            return None, e, injected

    # ---- classification oracle (C08 / C12) ----------------------------------
    def expected_classification(self, ent):
        """independent verdict on the stored bytes: ('class', name) | ('unknown',) | ('invalid',)"""
        from xml.etree import ElementTree
        try:
            root = ElementTree.fromstring(ent['data'])
        except (ElementTree.ParseError, LookupError, ValueError):
            # not well-formed, or in an encoding the parser cannot decode
            return ('invalid',)
        tags = [c.tag for c in root]
        for tag in O.MESSAGE_TAGS:
            if tag in tags:
                if tag != 'roElementAction':
                    return ('class', O.TAG_CLASS[tag])
                ea = root.find('roElementAction')
                opn = ea.attrib.get('operation')
                tgt = ea.find('element_target')
                src = ea.find('element_source')
                t_item = tgt is not None and len(tgt.findall('itemID')) > 0
                s_item = src is not None and len(src.findall('itemID')) > 0
                name = O.EA_CLASS.get((opn, t_item, s_item))
                if name is None or src is None:
                    return ('unknown',)
                return ('class', name)
        return ('unknown',)

    def judge_classification(self, ent, obj, exc, injected, label, op):
        add = self.adder(op, {'where': label})
        n_msg = sum(1 for tag in O.MESSAGE_TAGS if self._count_tag(ent, tag))
        if injected:
            return
        exp = self.expected_classification(ent)
        self.cov.add(('classify', exp[0], exp[1] if len(exp) > 1 else '', type(exc).__name__ if exc else 'ok'))
        if exc is not None and not isinstance(exc, MX.MosRoMgrException):
            if exp[0] != 'invalid':     # C12 speaks of well-formed documents; malformed ones belong to C08
                add('C12.exc', 'classifying a document escaped as %s: %s' % (type(exc).__name__, exc))
            add('C08.class', 'classification (%s) raised %s instead of %s' % (label, type(exc).__name__, exp))
            return
        if n_msg > 1:
            return      # several message elements in one document: the properties name no winner
        if exp[0] == 'class':
            if exc is not None or type(obj).__name__ != exp[1]:
                add('C08.class', '%s: classified as %s, message element says %s' % (
                    label, type(exc).__name__ if exc else type(obj).__name__, exp[1]))
        elif exp[0] == 'unknown':
            if not isinstance(exc, MX.UnknownMosFileType):
                add('C08.class', '%s: unrecognised message gave %s, expected UnknownMosFileType' % (
                    label, type(exc).__name__ if exc else type(obj).__name__))
        else:
            if not isinstance(exc, MX.MosInvalidXML):
                add('C08.class', '%s: malformed XML gave %s, expected MosInvalidXML' % (
                    label, type(exc).__name__ if exc else type(obj).__name__))

    def _count_tag(self, ent, tag):
        c = ent.get('_tags')
        if c is None:
            from xml.etree import ElementTree
            try:
                root = ElementTree.fromstring(ent['data'])
                c = Counter(x.tag for x in root)
            except (ElementTree.ParseError, LookupError, ValueError):
                c = Counter()
            ent['_tags'] = c
        return c[tag]

    def classify_everywhere(self, ent, op):
        """C08 / C18: every source, both warning configurations"""
        results = []
        paths = ['str', 'bytes', 'file', 's3']
        if ent['text'] is None:
            paths = ['bytes', 'file', 's3']
        for path in paths:
            for filt in ('default', 'error'):
                with warnings.catch_warnings(record=True):
                    warnings.resetwarnings()
                    warnings.simplefilter('always' if filt == 'default' else filt)
                    obj, exc, inj = self.parse(ent, path, 'MosFile')
                label = '%s/%s' % (path, filt)
                self.judge_classification(ent, obj, exc, inj, label, op)
                results.append((label, type(obj).__name__ if obj is not None else type(exc).__name__,
                                str(obj) if obj is not None else None))
        by_filter = {}
        for lab, name, sx in results:
            by_filter.setdefault(lab.split('/')[1], set()).add((name, sx))
        for filt, kinds in sorted(by_filter.items()):
            if len(kinds) > 1:
                self.add('C18.source', 'sources disagree (%s filter): %r' % (filt, sorted({(r[0], r[1]) for r in results if r[0].endswith(filt)})), op)
        if by_filter.get('default') != by_filter.get('error'):
            self.add('C08.config', 'classification depends on the warning configuration: %r' % {k: sorted(x[0] for x in v) for k, v in sorted(by_filter.items())}, op)
        self.stats['classify_everywhere'] += 1

    # ---- one merge with recording ------------------------------------------
    def merge(self, ro, obj):
        """-> (ro', out dict)"""
        sA = str(ro)
        # warnings are recorded by the run-wide context (see run()): the filters a host application installed
        # before the run must still be in force, whatever the library did in between
        n0 = len(self._wlog)
        exc = None
        res = ro
        try:
            res = ro + obj
        except Exception as e:   # noqa
            exc = e
        w = self._wlog[n0:]
        ok = isinstance(res, MT.RunningOrder)
        ro2 = res if (exc is None and ok) else ro
        sB = str(ro2)
        out = {
            'exc': type(exc).__name__ if exc is not None else None,
            'merge_error': isinstance(exc, MX.MosMergeError),
            'completed_error': isinstance(exc, MX.MosCompletedMergeError),
            'injected': False,
            'warnings': [x.category.__name__ for x in w if issubclass(x.category, MX.MosRoMgrWarning)],
            'other_warnings': sorted({x.category.__name__ for x in w if not issubclass(x.category, MX.MosRoMgrWarning)}),
            'same': sA == sB,
            'result_ok': exc is not None or ok,
            'msg': str(exc)[:200] if exc is not None else None,
        }
        return ro2, out, sA, sB

    # ---- steps -------------------------------------------------------------
    def do_create(self, step):
        op = step['op']
        text, data = self.materialise(step)
        ent = self.put(step, text, data)
        obj, exc, inj = self.parse(ent, step.get('path', 'str'), step.get('via', 'MosFile'))
        self.judge_classification(ent, obj, exc, inj, 'create', op)
        if obj is None or type(obj).__name__ != 'RunningOrder':
            self.fatal = 'roCreate could not be read: %r' % (exc,)
            return
        self.P = obj
        self.create_text = text
        self.orig_mid = op['mid']
        self.orig_roid = op.get('ro_id', 'RO1')
        mk = lambda: MT.RunningOrder.from_string(text)
        self.twin = self.cfg.get('twin', False)
        try:
            if self.twin:
                self.Nn = mk()
                self.T = mk()
            if self.twin and self.cfg.get('double'):
                self.D, self.DC = mk(), mk()
        except Exception:    # noqa - the judged read above succeeded; without a second copy there is no twin to run
            self.twin = False
            self.D = self.DC = None
        self.T_queue = []
        self.N_hist = []
        self.completed = False
        self.sP_last = str(self.P)
        self.sT_last = str(self.T) if self.twin else None
        self.restarts_since = 0
        self.state_checks(op)
        if not inj and not step.get('corrupt') and self.cfg.get('checks', {}).get('accessors', True):
            # the same accessors against the document as the NCS sent it (what the parser made of it is not the measure)
            check_accessors(self.P, self.adder(op), doc=canon(O.document(op)))
        self.event(self.step_i, 'create', digest(canon_et(self.P.xml)))

    def state_checks(self, op):
        if getattr(self, 'poisoned', False):
            return      # a non-schema-shaped payload was accepted: the state is outside every precondition
        ck = self.cfg.get('checks', {})
        if ck.get('roundtrip', True):
            check_roundtrip(self.P, self.adder(op), self.orig_mid, self.orig_roid, self.completed)
        if ck.get('accessors', True):
            check_accessors(self.P, self.adder(op))

    def do_msg(self, step):
        op = step['op']
        text, data = self.materialise(step)
        ent = self.put(step, text, data)
        if step.get('classify_all'):
            self.classify_everywhere(ent, op)
        if not step.get('merge', True) or self.P is None:
            obj, exc, inj = self.parse(ent, step.get('path', 'str'), 'MosFile', step.get('io'))
            self.judge_classification(ent, obj, exc, inj, step.get('path', 'str'), op)
            self.event(self.step_i, 'store', op['type'], step.get('path', 'str'),
                       type(exc).__name__ if exc else type(obj).__name__)
            return
        path, via = step.get('path', 'str'), step.get('via', 'MosFile')
        # -- third-party view of sharing between steps (C13 / C03 twin)
        if str(self.P) != self.sP_last:
            self.add('C13.shared', 'the running order changed between two of its own steps', op)
        obj, exc, inj = self.parse(ent, path, via, step.get('io'))
        if inj:
            self.stats['fault.io.fired'] += 1
            self.event(self.step_i, 'io-fault', op['type'], path, type(exc).__name__)
            obj, exc, inj = self.parse(ent, path, via)     # the pipeline retries the read
        self.judge_classification(ent, obj, exc, inj, path + '/' + via, op)
        if obj is None:
            self.event(self.step_i, 'unreadable', op['type'], path, type(exc).__name__)
            return
        if type(obj).__name__ != O.expected_class(op):
            # C08 has judged the class; what the message means is still decided by the message, so the merge is
            # carried out and judged like any other (a misclassified insert that does nothing breaks C01/C02 too)
            self.event(self.step_i, 'misclassified', op['type'], type(obj).__name__)
            if not hasattr(obj, 'merge') or isinstance(obj, MT.RunningOrder) and op['type'] != 'ROReplace':
                return
        snap = str(obj)
        ck = self.cfg.get('checks', {})
        if ck.get('message', True) and not op.get('malformed'):
            check_message(obj, op, self.adder(op), '')
            if str(obj) != snap:
                self.add('C13.msg-mutated', 'reading the accessors / inspect() changed the message', op)
        # -- the step itself
        A = canon_et(self.P.xml)
        was_completed = self.completed
        self.P, out, sA, sB = self.merge(self.P, obj)
        B = canon_et(self.P.xml)
        verdicts = judge(A, op, out, B)
        for clause, detail in verdicts:
            self.add(clause, detail, op)
        if op['type'] == 'StorySend' and not op.get('malformed'):
            from .ops import carried_nodes as _cn
            sid_ = next((x[2] for x in op['payload'][0][4] if x[0] == 'storyID'), None)
            earlier = getattr(self, '_sent', {}).get((op['mid'], sid_))
            if step.get('remid') and earlier is not None and out['exc'] is None:
                got = RoView(B).story(sid_)
                if got is not None and notail(got) == earlier and notail(got) != notail(canon(_cn(op)[0])):
                    self.add('C13.history', 'a message with the ids of an earlier one but other content was merged with the EARLIER '
                             'content: the result does not depend on the message content alone', op)
            if not hasattr(self, '_sent'):
                self._sent = {}
            self._sent[(op['mid'], sid_)] = notail(canon(_cn(op)[0]))
        if op['type'] == 'RODelete' and out['exc'] is None and not was_completed and not op.get('malformed'):
            self.completed = True
        if op.get('poison'):
            self.poisoned = True        # accepted or not: from here on the state may hold an element without id
        if op.get('malformed') and out['exc'] is None:
            # whatever a malformed message did when it was accepted is adopted
            self.completed = bool(RoView(B).metas)
            if RoView(B).rc is not None:
                from .xmlmodel import child_text as _ct
                self.orig_roid = _ct(RoView(B).rc, 'roID')
        if out['exc'] is None and not op.get('malformed'):
            # messages that carry a roID into the running order decide what it is from now on
            if op['type'] == 'MetadataReplace':
                self.orig_roid = op.get('ro_id', 'RO1')
            elif op['type'] == 'ROReplace':
                self.orig_roid = next((c[2] for c in op['payload'] if c[0] == 'roID'), self.orig_roid)
        self.sP_last = sB
        outcome = ('refused-completed' if out['completed_error'] else 'refused' if out['merge_error']
                   else 'crashed' if out['exc'] else 'warned' if out['warnings'] else 'applied')
        self.stats['outcome.' + outcome] += 1
        sh = op.get('shapes', {})
        self.cov.add((op['type'], str(sh.get('target', '')), str(sh.get('story', '')), str(sh.get('pos', '')),
                      ','.join(sorted(set(sh.get('sources', [])))), min(3, len(op.get('sources', []) or op.get('payload', []))),
                      outcome, was_completed))
        if self.log and len(self.log[-1]) > 2:
            self.cov.add(('pair', self.log[-1][2] if self.log[-1][1] == 'msg' else self.log[-1][1], op['type']))
        self.note_probes(op, step, outcome, was_completed, out)
        self.msgs.append((obj, snap, op, self.step_i))
        if ck.get('message', True) and ck.get('message_after', True) and not op.get('malformed'):
            check_message(obj, op, self.adder(op, {'when': 'after-merge'}), 'after merge: ')
        if not self.twin:
            self.state_checks(op)
            self.event(self.step_i, 'msg', op['type'], path, outcome, tuple(out['warnings']), digest(B))
            return
        # -- a later change made directly to the running order's XML must not reach the message object
        self.poke(self.P.xml, obj.xml, lambda: str(obj) != snap, op,
                  'editing the running order\'s XML changes the message object that was merged')
        # -- N: always fresh objects, never shared with anything (reference for the twin, C13)
        try:
            fresh = MT.MosFile.from_string(text if text is not None else data)
            fresh2 = [MT.MosFile.from_string(text if text is not None else data) for _ in range(4)] if self.D is not None else []
        except Exception:    # noqa - a second parse of a message that was just parsed fails: nothing to compare with
            self.twin = False
            self.stats['twin.abandoned'] += 1
            self.state_checks(op)
            self.event(self.step_i, 'msg', op['type'], path, outcome, tuple(out['warnings']), digest(B))
            return
        self.Nn, outN, _, sN = self.merge(self.Nn, fresh)
        self.N_hist.append((outN['exc'], sN, tuple(outN['warnings'])))
        # -- D / DC: the same object merged twice vs two fresh copies (C13)
        if self.D is not None and step.get('double'):
            r = []
            for _ in range(2):
                self.D, o, _, s = self.merge(self.D, obj)
                r.append((o['exc'], s))
            rc = []
            for k in range(2):
                self.DC, o, _, s = self.merge(self.DC, fresh2[k])
                rc.append((o['exc'], s))
            self.stats['double'] += 1
            if r != rc:
                self.add('C13.reuse', 'merging the same object twice differs from merging two fresh copies', op, {'mode': 'double'})
        elif self.D is not None:
            self.D, _, _, _ = self.merge(self.D, fresh2[2])
            self.DC, _, _, _ = self.merge(self.DC, fresh2[3])
        # -- T: the twin receives the same object, possibly later
        lag = step.get('twin_lag')
        j = len(self.N_hist) - 1
        self.T_queue.append((self.step_i + (lag or 0), obj, snap, j, op, self.step_i))
        self.drain_twin(self.step_i)
        self.state_checks(op)
        self.event(self.step_i, 'msg', op['type'], path, outcome, tuple(out['warnings']), digest(B))

    def note_probes(self, op, step, outcome, was_completed, out):
        """'this rare condition was hit' counters (evidence; a probe stuck at zero means the workload must change)"""
        pr = self.probes
        sh = op.get('shapes', {})
        t = op['type']
        pos = sh.get('pos', '')
        srcs = op.get('sources', [])
        if 'Move' in t and pos in ('before', 'adjacent-before', 'both') and outcome == 'applied':
            pr['forward-move-applied'] += 1
        if 'Move' in t and len(srcs) >= 3 and outcome == 'applied':
            pr['move-list>=3-applied'] += 1
        if 'Delete' in t and len(srcs) >= 3:
            pr['delete-list>=3'] += 1
        if 'Swap' in t and str(pos).startswith('rev') and outcome == 'applied':
            pr['reversed-swap-applied'] += 1
        if 'Swap' in t and 'repeat' in sh.get('sources', []):
            pr['swap-with-itself'] += 1
        if t == 'StorySend' and str(pos) not in ('k=1', 'k=-') and outcome == 'applied':
            pr['kth-story-resent-k>=2'] += 1
        shapes = sh.get('sources', [])
        if any(x != 'existing' for x in shapes[1:]) and len(shapes) >= 2:
            pr['bad-ref-at-position>=2-of-n'] += 1
        if was_completed:
            pr['after-roDelete:' + t] += 1
        if outcome == 'warned':
            pr['warned:' + ','.join(sorted(set(out['warnings'])))] += 1
        if sh.get('target') == 'blank' or op.get('tform') in ('blank', 'absent') or sh.get('target') == 'end':
            pr['blank-or-end-target'] += 1
        if sh.get('story') in ('blank', 'unknown', 'stale'):
            pr['unresolvable-container'] += 1
        if sh.get('dups'):
            pr['insert-with-duplicates'] += 1
        if step.get('channel'):
            pr['channel-' + step['channel']] += 1
        if op.get('roid_pos') or (t == 'StorySend' and op.get('body_span', [1])[0] == 0):
            pr['storysend-unusual-layout'] += 1

    def poke(self, edited_root, other_root, changed, op, what):
        """behavioural probe for shared mutable content: edit an element of *edited_root* that is also
        reachable from *other_root* and see whether the other side changed; the edit is undone"""
        ids = {id(e) for e in other_root.iter()}
        for e in edited_root.iter():
            if id(e) in ids:
                self.probes['shared-element'] += 1
                e.set('x-verif-poke', '1')
                try:
                    if changed():
                        self.add('C13.shared-edit', what, op, {'shared_tag': e.tag})
                finally:
                    del e.attrib['x-verif-poke']
                return

    def drain_twin(self, now):
        while self.T_queue and self.T_queue[0][0] <= now:
            _due, obj, snap, j, op, mstep = self.T_queue.pop(0)
            if str(self.T) != self.sT_last:
                self.add('C13.shared', 'the twin changed although only the other running order was edited', op, {'msg_step': mstep})
            if str(obj) != snap:
                self.add('C13.msg-mutated', 'message object changed after it was merged', op, {'mode': 'later-edit'})
            self.T, o, _, s = self.merge(self.T, obj)
            self.sT_last = s
            self.stats['twin.merge'] += 1
            sP = str(self.P)
            self.poke(self.T.xml, self.P.xml, lambda: str(self.P) != sP, op,
                      'two running orders share mutable content through a message object')
            excN, sN, wN = self.N_hist[j]
            if (o['exc'], s) != (excN, sN):
                self.add('C13.reuse', 're-using a message object gives a different result than a fresh copy', op, {'mode': 'twin'})
                # re-anchor the twin so that one defect is reported once
                try:
                    self.T = MT.RunningOrder.from_string(sN)
                    self.sT_last = str(self.T)
                except Exception:
                    pass

    def do_restart(self, step):
        if self.P is None:
            return
        via = step.get('via', 'mem')
        s = str(self.P)
        before = canon_et(self.P.xml)
        try:
            if via == 'file':
                p = self.fs.write('state.xml', s.encode('utf-8'))      # always the same path: a cache keyed on it would go stale
                ro = MT.MosFile.from_file(p)
            elif via == 'bytes':
                ro = MT.MosFile.from_string(s.encode('utf-8'))
            elif via == 's3':
                self.s3.put(self.bucket, 'state/current.xml', s.encode('utf-8'))      # always the same key
                ro = MT.MosFile.from_s3(self.bucket, 'state/current.xml')
            else:
                ro = MT.MosFile.from_string(s)
        except Exception as e:   # noqa
            self.add('C14.roundtrip', 'restart: re-reading str(ro) raised %s: %s' % (type(e).__name__, e), None, {'via': via})
            if self.completed:
                self.add('C07.roundtrip', 'restart: the completed running order cannot be read back (%s)' % type(e).__name__, None, {'via': via})
            return
        if type(ro) is not MT.RunningOrder:
            self.add('C07.roundtrip' if self.completed else 'C14.roundtrip',
                     'restart: serialised running order classified as %s' % type(ro).__name__, None, {'via': via})
            return
        if canon_et(ro.xml) != before or str(ro) != s:
            self.add('C14.roundtrip', 'restart: state read back differs', None, {'via': via})
        if ro.completed != self.completed:
            self.add('C07.roundtrip', 'restart: completed %r reads back as %r' % (self.completed, ro.completed), None, {'via': via})
        self.P = ro
        self.sP_last = str(ro)
        self.restarts_since += 1
        self.stats['fault.restart'] += 1
        if self.completed:
            self.probes['restart-while-completed'] += 1
        self.event(self.step_i, 'restart', via)

    def do_inspect(self, step):
        if self.P is None:
            return
        check_accessors(self.P, self.adder(None))
        check_accessors(self.P, self.adder(None))
        self.stats['inspect'] += 1

    # ---- run -------------------------------------------------------------
    def run(self):
        self.fatal = None
        self.count_configured()
        fresh_modules()
        set_logging(self.cfg.get('logging', 'off'))
        self.fs.install()
        self.s3.install()
        self._wctx = warnings.catch_warnings(record=True)
        self._wlog = self._wctx.__enter__()
        warnings.resetwarnings()
        warnings.simplefilter('always')
        # a host application's own message filter (as botocore installs one); it never matches
        warnings.filterwarnings('ignore', message=HOST_FILTER)
        try:
            for i, step in enumerate(self.tr['steps']):
                self.step_i = i
                k = step['k']
                if k == 'create':
                    self.do_create(step)
                elif k == 'msg':
                    self.do_msg(step)
                elif k == 'restart':
                    self.do_restart(step)
                elif k == 'inspect':
                    self.do_inspect(step)
                elif k == 'batch':
                    from .collection import do_batch
                    do_batch(self, step)
                elif k == 'cli':
                    from .clidriver import do_cli
                    do_cli(self, step)
                elif k == 'listing':
                    from .collection import do_listing
                    do_listing(self, step)
                if self.fatal:
                    break
            self.step_i = len(self.tr['steps'])
            if self.P is not None:
                if self.twin:
                    self.drain_twin(10 ** 9)
                ck = self.cfg.get('checks', {})
                if ck.get('message', True) and ck.get('message_late', True):
                    for obj, snap, op, st in self.msgs:
                        if not op.get('malformed'):
                            check_message(obj, op, self.adder(op, {'when': 'end-of-run'}), 'at the end of the run: ')
                for obj, snap, op, st in self.msgs:
                    if str(obj) != snap:
                        self.add('C13.msg-mutated', 'message object merged at step %d changed afterwards' % st, op, {'mode': 'end-of-run'})
        finally:
            set_logging('off')
            self._wctx.__exit__(None, None, None)
            self.s3.uninstall()
            self.fs.destroy()
        for k, v in self.fs.fired.items():
            self.stats['fault.io.' + k] += v
        for k, v in self.s3.fired.items():
            self.stats['fault.s3.' + k] += v
        for k, v in self.s3.calls.items():
            self.stats['s3.' + k] += v
        logd = hashlib.sha256(repr(self.log).encode('utf-8', 'surrogatepass')).hexdigest()[:16]
        return {
            'seed': self.tr.get('seed'),
            'violations': self.V,
            'digest': logd,
            'steps': len(self.tr['steps']),
            'stats': dict(self.stats),
            'probes': dict(self.probes),
            'cov': sorted(map(repr, self.cov)),
            'state_digests': sorted({e[-1] for e in self.log if e[1] in ('msg', 'create') and isinstance(e[-1], str)}),
            'merges': sum(1 for e in self.log if e[1] == 'msg'),
            'fatal': self.fatal,
            'log': self.log if self.tr.get('keep_log') else None,
        }


def execute(trace):
    return Run(trace).run()
