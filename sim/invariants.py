"""State and message invariants (DESIGN.md 6.5): C07, C14-C17, C20.

Every expected value is recomputed from the canonical abstraction of the XML
(or taken from what the NCS put into the message); the real accessors of
mosromgr are only ever on the *observed* side.
"""
import contextlib
import io
from datetime import datetime, timedelta

from .xmlmodel import (canon_et, canon, notail, child, child_text, children, RoView, items_of)
from .ops import OP_TABLE, carried_nodes

BUILTIN_ESCAPES = (AttributeError, KeyError, ValueError, IndexError, TypeError)


class OutOfModel(Exception):
    """the document holds timing text that is no number / no time stamp: outside every precondition"""


def _ts(s):
    try:
        return datetime.strptime(s, '%Y-%m-%dT%H:%M:%S')
    except ValueError:
        raise OutOfModel(s)


def _fl(s):
    try:
        return float(s)
    except ValueError:
        raise OutOfModel(s)


def _payload(story):
    md = child(story, 'mosExternalMetadata')
    if md is None:
        return None
    return child(md, 'mosPayload')


def exp_duration(story):
    pl = _payload(story)
    if pl is None:
        return None
    sd = child_text(pl, 'StoryDuration')
    if sd is not None:
        return _fl(sd)
    tt, mt = child_text(pl, 'TextTime'), child_text(pl, 'MediaTime')
    if tt is None and mt is None:
        return None
    return (_fl(tt) if tt is not None else 0) + (_fl(mt) if mt is not None else 0)


def exp_explicit(story, tag):
    pl = _payload(story)
    if pl is None:
        return None
    v = child_text(pl, tag)
    return _ts(v) if v is not None else None


def is_note(text):
    s = text.strip()
    return (s.startswith('(') and s.endswith(')')) or (s.startswith('<') and s.endswith('>'))


def exp_script(story):
    return [p[2].strip() for p in story[4] if p[0] == 'p' and p[2] and p[2].strip() and not is_note(p[2])]


def exp_body(story):
    """list of ('p', text) / ('item', id)"""
    out = []
    for c in story[4]:
        if c[0] == 'p':
            out.append(('p', c[2] or ''))
        elif c[0] == 'item':
            out.append(('item', child_text(c, 'itemID')))
    return out


def _obs_body(body):
    out = []
    for b in body:
        if isinstance(b, str):
            out.append(('p', b))
        else:
            out.append(('item', b.id))
    return out


def exp_note(item):
    md = child(item, 'mosExternalMetadata')
    if md is None:
        return None
    pl = child(md, 'mosPayload')
    if pl is None:
        return None

    def find(c):
        for x in c[4]:
            if x[0] == 'studioCommand' and dict(x[1]).get('type') == 'note':
                return x
            r = find(x)
            if r is not None:
                return r
        return None
    sc = find(pl)
    if sc is None:
        return None
    t = child(sc, 'text')
    if t is None:
        return None
    return t[2] if t[2] != '' else None


def check_accessors(ro, add, order=None, doc=None):
    """C15 / C16 / C17 on one state.  ``add(clause, detail)`` records a violation.  The accessors are compared with
    the live document, or with *doc* (canon) when the caller knows the document as it was sent."""
    try:
        _check_accessors(ro, add, order, doc)
    except OutOfModel:
        pass


def _check_accessors(ro, add, order=None, doc=None):
    from xml.etree import ElementTree
    before = ElementTree.tostring(ro.xml, encoding='unicode')
    root = doc if doc is not None else canon_et(ro.xml)
    v = RoView(root)
    if v.rc is None:
        return      # no running-order element at all: C14.envelope reports that; there is nothing to read
    exp_stories = v.stories()

    def get(label, fn):
        try:
            return True, fn()
        except Exception as e:   # noqa - the property is exactly that nothing escapes
            add('C15.accessor', '%s raised %s: %s' % (label, type(e).__name__, e))
            return False, None

    ok, stories = get('ro.stories', lambda: ro.stories)
    ro_start_txt = child_text(v.rc, 'roEdStart')
    exp_ro_start = _ts(ro_start_txt) if ro_start_txt is not None else None
    ok_s, ro_start = get('ro.start_time', lambda: ro.start_time)
    if ok_s and ro_start != exp_ro_start:
        add('C16.timing', 'ro.start_time %r, XML says %r' % (ro_start, exp_ro_start))
        add('C15.accessor', 'ro.start_time %r does not agree with roEdStart %r' % (ro_start, ro_start_txt))
    ok_d, ro_dur = get('ro.duration', lambda: ro.duration)
    ok_e, ro_end = get('ro.end_time', lambda: ro.end_time)
    ok_sc, ro_script = get('ro.script', lambda: ro.script)
    ok_b, ro_body = get('ro.body', lambda: ro.body)
    ok_x, ro_slug = get('ro.ro_slug', lambda: ro.ro_slug)
    if ok_x and ro_slug != child_text(v.rc, 'roSlug'):
        add('C15.accessor', 'ro.ro_slug %r differs from the XML' % (ro_slug,))
    ok_x, ro_id = get('ro.ro_id', lambda: ro.ro_id)
    if ok_x and ro_id != child_text(v.rc, 'roID'):
        add('C15.accessor', 'ro.ro_id %r differs from the XML' % (ro_id,))
    get('ro.message_id', lambda: ro.message_id)
    get('ro.completed', lambda: ro.completed)
    get('repr(ro)', lambda: repr(ro))

    durs = [exp_duration(s) for s in exp_stories]
    all_dur = all(d is not None for d in durs)
    unique = v.unique_story_ids()

    if ok_d and all_dur and exp_stories:
        if ro_dur != sum(durs):
            add('C16.timing', 'ro.duration %r, sum of story durations %r' % (ro_dur, sum(durs)))
        if ro_dur is None:
            add('C15.accessor', 'ro.duration is None although every story carries a duration')
    if ok_sc:
        want = [x for s in exp_stories for x in exp_script(s)]
        if ro_script != want:
            add('C17.script', 'ro.script %r, XML says %r' % (ro_script, want))
    if ok_b:
        want = [x for s in exp_stories for x in exp_body(s)]
        ok_o, got = get('ro.body items', lambda: _obs_body(ro_body))
        if ok_o and got != want:
            add('C17.body', 'ro.body %r, XML says %r' % (got, want))

    if ok:
        if len(stories) != len(exp_stories):
            add('C15.accessor', 'ro.stories lists %d stories, the XML holds %d' % (len(stories), len(exp_stories)))
        t = 0.0
        last_end = None
        idxs = list(range(min(len(stories), len(exp_stories))))
        for i in idxs:
            st, es = stories[i], exp_stories[i]
            lab = 'story[%d]' % i
            o, sid = get(lab + '.id', lambda: st.id)
            if o and sid != child_text(es, 'storyID'):
                add('C15.accessor', '%s.id %r, XML says %r' % (lab, sid, child_text(es, 'storyID')))
            o, slug = get(lab + '.slug', lambda: st.slug)
            if o and slug != child_text(es, 'storySlug'):
                add('C15.accessor', '%s.slug %r, XML says %r' % (lab, slug, child_text(es, 'storySlug')))
            o, dur = get(lab + '.duration', lambda: st.duration)
            if o and dur != durs[i]:
                add('C16.timing', '%s.duration %r, XML says %r' % (lab, dur, durs[i]))
                if (dur is None) != (durs[i] is None):
                    add('C15.accessor', '%s.duration %r, the XML %s a duration' % (lab, dur, 'carries' if durs[i] is not None else 'carries no'))
            o, off = get(lab + '.offset', lambda: st.offset)
            if o and all_dur and unique and off != t:
                add('C16.timing', '%s.offset %r, expected %r' % (lab, off, t))
            if o and not all_dur and unique and off is not None:
                # some story has no duration: an offset, when one is given at all, can only be the sum of the
                # durations before it (known ones; a missing one counting as nothing) - never an invented value
                if any(d is None for d in durs[:i]) and off != sum(d for d in durs[:i] if d is not None):
                    add('C16.timing', '%s.offset %r although a story before it has no duration (known durations before it add up to %r)' % (
                        lab, off, sum(d for d in durs[:i] if d is not None)))
                    add('C15.accessor', '%s.offset %r is not in the document: a story before it has no duration' % (lab, off))
            e_start = exp_explicit(es, 'StoryStarted')
            if e_start is None and all_dur and unique and exp_ro_start is not None:
                e_start = exp_ro_start + timedelta(seconds=t)
            o1, start = get(lab + '.start_time', lambda: st.start_time)
            have_start = exp_explicit(es, 'StoryStarted') is not None or (all_dur and unique)
            if o1 and have_start and start != e_start:
                add('C16.timing', '%s.start_time %r, expected %r' % (lab, start, e_start))
            if o1 and exp_explicit(es, 'StoryStarted') is not None and start != exp_explicit(es, 'StoryStarted'):
                add('C15.accessor', '%s.start_time %r does not agree with the StoryStarted in the XML' % (lab, start))
            e_end = exp_explicit(es, 'StoryEnded')
            if e_end is None and e_start is not None and durs[i] is not None:
                e_end = e_start + timedelta(seconds=durs[i])
            o2, end = get(lab + '.end_time', lambda: st.end_time)
            if o2 and (exp_explicit(es, 'StoryEnded') is not None or have_start) and end != e_end:
                add('C16.timing', '%s.end_time %r, expected %r' % (lab, end, e_end))
            if o2 and exp_explicit(es, 'StoryEnded') is not None and end != exp_explicit(es, 'StoryEnded'):
                add('C15.accessor', '%s.end_time %r does not agree with the StoryEnded in the XML' % (lab, end))
            # no end can be known: no explicit end and either no duration, or neither an explicit start nor a running-order start
            no_end = exp_explicit(es, 'StoryEnded') is None and (
                durs[i] is None or (exp_explicit(es, 'StoryStarted') is None and exp_ro_start is None))
            if o2 and no_end and end is not None:
                add('C16.timing', '%s.end_time %r although the document gives it no end, and no start or duration to derive one' % (lab, end))
                add('C15.accessor', '%s.end_time %r is not in the document' % (lab, end))
            if i == len(exp_stories) - 1 and (exp_explicit(es, 'StoryEnded') is not None or have_start):
                last_end = ('v', e_end)
            elif i == len(exp_stories) - 1 and no_end:
                last_end = ('none', None)
            if durs[i] is not None:
                t += durs[i]
            o, sc = get(lab + '.script', lambda: st.script)
            if o and sc != exp_script(es):
                add('C17.script', '%s.script %r, XML says %r' % (lab, sc, exp_script(es)))
            o, bd = get(lab + '.body', lambda: _obs_body(st.body))
            if o and bd != exp_body(es):
                add('C17.body', '%s.body %r, XML says %r' % (lab, bd, exp_body(es)))
            o, its = get(lab + '.items', lambda: st.items)
            e_items = items_of(es)
            if o:
                if its is None or len(its) != len(e_items):
                    add('C15.accessor', '%s.items lists %r items, the XML holds %d' % (lab, None if its is None else len(its), len(e_items)))
                else:
                    for k, (it, ei) in enumerate(zip(its, e_items)):
                        il = '%s.items[%d]' % (lab, k)
                        for name, tag in (('id', 'itemID'), ('slug', 'itemSlug'), ('type', 'objType'),
                                          ('object_id', 'objID'), ('mos_id', 'mosID')):
                            o, val = get(il + '.' + name, lambda: getattr(it, name))
                            if o and val != child_text(ei, tag):
                                add('C15.accessor', '%s.%s %r, XML says %r' % (il, name, val, child_text(ei, tag)))
                        o, note = get(il + '.note', lambda: it.note)
                        if o and note != exp_note(ei):
                            add('C15.accessor', '%s.note %r, XML says %r' % (il, note, exp_note(ei)))
            get('repr(%s)' % lab, lambda: repr(st))
        if ok_e:
            if not exp_stories:
                if ro_end is not None:
                    add('C16.timing', 'ro.end_time %r for a running order without stories' % (ro_end,))
            elif last_end is not None and ro_end != last_end[1]:
                add('C16.timing', 'ro.end_time %r, last story ends %r' % (ro_end, last_end[1]))
                if last_end[0] == 'none':
                    add('C15.accessor', 'ro.end_time %r although the last story has no end in the document' % (ro_end,))
                if exp_explicit(exp_stories[-1], 'StoryEnded') is not None:
                    add('C15.accessor', 'ro.end_time %r does not agree with the StoryEnded of the last story in the XML' % (ro_end,))
    after = ElementTree.tostring(ro.xml, encoding='unicode')
    if after != before:
        add('C15.accessor', 'reading the accessors changed the running order')


def check_roundtrip(ro, add, orig_mid, orig_roid, expect_completed):
    """C14 (+ the serialisation half of C07) on one state."""
    from mosromgr.mostypes import RunningOrder, MosFile
    from xml.etree import ElementTree
    try:
        s = str(ro)
    except Exception as e:
        add('C14.roundtrip', 'str(ro) raised %s' % type(e).__name__)
        return None
    try:
        root = canon_et(ElementTree.fromstring(s))
    except Exception as e:
        add('C14.roundtrip', 'str(ro) is not well-formed: %s' % e)
        return s
    if root != canon_et(ro.xml):
        add('C14.roundtrip', 'str(ro) parses to different content than ro.xml')
    try:
        ro2 = RunningOrder.from_string(s)
        s2 = str(ro2)
        if s2 != s:
            add('C14.roundtrip', 'serialisation is not stable under write/read')
        if canon_et(ro2.xml) != canon_et(ro.xml):
            add('C14.roundtrip', 'read-back content differs')
        if ro2.completed != ro.completed:
            add('C14.roundtrip', 'completed flag %r reads back as %r' % (ro.completed, ro2.completed))
        # same stories and items through the accessors of the live object and of the read-back one
        try:
            live = [(st.id, [it.id for it in (st.items or [])]) for st in ro.stories]
            back = [(st.id, [it.id for it in (st.items or [])]) for st in ro2.stories]
            if live != back:
                add('C14.roundtrip', 'the live running order lists %r, its serialisation reads back as %r' % (live[:6], back[:6]))
        except Exception:    # noqa - accessor failures are C15's
            pass
        m = MosFile.from_string(s)
        if type(m) is not RunningOrder:
            add('C07.roundtrip' if expect_completed else 'C14.roundtrip',
                'serialised running order is classified as %s' % type(m).__name__)
        elif m.completed != expect_completed:
            add('C07.roundtrip', 'completed=%r after read-back, expected %r' % (m.completed, expect_completed))
    except Exception as e:
        add('C14.roundtrip', 'reading back str(ro) raised %s: %s' % (type(e).__name__, e))
    if ro.completed != expect_completed:
        add('C07.flag', 'ro.completed is %r, expected %r' % (ro.completed, expect_completed))
    v = RoView(root)
    if v.n_rc != 1:
        add('C14.envelope', '%d roCreate elements in the envelope' % v.n_rc)
    if len(v.metas) > 1:
        add('C14.envelope', '%d completion records' % len(v.metas))
    mids = [x[2] for x in v.envelope if x[0] == 'messageID']
    if [m.strip() for m in mids] != [str(orig_mid)]:
        add('C14.envelope', 'messageID %r, original %r' % (mids, orig_mid))
    else:
        try:
            if ro.message_id != orig_mid:
                add('C14.envelope', 'ro.message_id %r, original %r' % (ro.message_id, orig_mid))
        except Exception as e:
            add('C14.envelope', 'ro.message_id raised %s' % type(e).__name__)
    if v.rc is not None:
        rid = child_text(v.rc, 'roID')
        if rid != orig_roid:
            add('C14.envelope', 'roID %r, original %r' % (rid, orig_roid))
        else:
            try:
                if ro.ro_id != orig_roid:
                    add('C14.envelope', 'ro.ro_id %r, original %r' % (ro.ro_id, orig_roid))
            except Exception as e:
                add('C14.envelope', 'ro.ro_id raised %s' % type(e).__name__)
    return s


# ---------------------------------------------------------------------------
# C20: what a message object exposes
# ---------------------------------------------------------------------------

# op type -> (container attr, target attr, sources attr, carried attr)
MSG_ACCESSORS = {
    'StorySend':        (None, None, None, 'story'),
    'StoryAppend':      (None, None, None, 'stories'),
    'StoryDelete':      (None, None, 'stories', None),
    'StoryInsert':      (None, 'target_story', None, 'source_stories'),
    'StoryReplace':     (None, 'story', None, 'stories'),
    'StoryMove':        (None, 'target_story', 'source_story', None),
    'ItemDelete':       ('story', None, 'items', None),
    'ItemInsert':       ('story', 'item', None, 'items'),
    'ItemReplace':      ('story', 'item', None, 'items'),
    'ItemMoveMultiple': ('story', 'item', 'items', None),
    'EAStoryReplace':   (None, 'story', None, 'stories'),
    'EAItemReplace':    ('story', 'item', None, 'items'),
    'EAStoryDelete':    (None, None, 'stories', None),
    'EAItemDelete':     ('story', None, 'items', None),
    'EAStoryInsert':    (None, 'story', None, 'stories'),
    'EAItemInsert':     ('story', 'item', None, 'items'),
    'EAStorySwap':      (None, None, 'stories', None),
    'EAItemSwap':       ('story', None, 'items', None),
    'EAStoryMove':      (None, 'story', 'stories', None),
    'EAItemMove':       ('story', 'item', 'items', None),
}


def _id_or_none(x):
    return None if x is None else x.id


def check_message(obj, op, add, when=''):
    """C20 on one message object."""
    t = op['type']
    if t not in MSG_ACCESSORS:
        return _check_inspect(obj, op, add, when, [])
    cont, targ, srcs, carr = MSG_ACCESSORS[t]
    level = OP_TABLE[t][3]

    def get(label, fn):
        try:
            return True, fn()
        except Exception as e:   # noqa
            add('C20.ids', '%s%s.%s raised %s: %s' % (when, t, label, type(e).__name__, e))
            return False, None

    try:
        ok, mid = get('message_id', lambda: obj.message_id)
        if ok and mid != op['mid']:
            add('C20.ids', '%smessage_id %r, sent %r' % (when, mid, op['mid']))
        ok, rid = get('ro_id', lambda: obj.ro_id)
        if ok and rid != op.get('ro_id', 'RO1'):
            add('C20.ids', '%sro_id %r, sent %r' % (when, rid, op.get('ro_id')))
    except Exception:
        pass
    if cont:
        want = op.get('story')
        want = want if isinstance(want, str) else None
        ok, got = get(cont, lambda: _id_or_none(getattr(obj, cont)))
        if ok and got != want:
            add('C20.ids', '%s%s.%s.id is %r, the message names %r' % (when, t, cont, got, want))
    if targ:
        want = op.get('target')
        if op.get('tform') in ('blank', 'absent'):
            want = None
        want = want if isinstance(want, str) else None
        ok, got = get(targ, lambda: _id_or_none(getattr(obj, targ)))
        if ok and got != want:
            add('C20.ids', '%s%s.%s.id is %r, the message names %r' % (when, t, targ, got, want))
    mention = []
    if srcs:
        want = [s for s in op.get('sources', []) if isinstance(s, str)]
        def read():
            v = getattr(obj, srcs)
            if t == 'StoryMove':
                v = [] if v is None else [v]
            return [x.id for x in v if x.id is not None]
        ok, got = get(srcs, read)
        if ok and got != want:
            add('C20.ids', '%s%s.%s ids are %r, the message names %r' % (when, t, srcs, got, want))
        mention = want
    if carr:
        want = [notail(canon(n)) for n in carried_nodes(op)]
        def read():
            v = getattr(obj, carr)
            if t == 'StorySend':
                v = [v]
            return [(x.id, notail(canon_et(x.xml))) for x in v]
        ok, got = get(carr, read)
        idtag = 'storyID' if level == 'story' else 'itemID'
        if ok:
            wids = [child_text(w, idtag) for w in want]
            if [g[0] for g in got] != wids:
                add('C20.ids', '%s%s.%s ids are %r, the message carries %r' % (when, t, carr, [g[0] for g in got], wids))
            elif [g[1] for g in got] != want:
                add('C20.content', '%s%s.%s content differs from what the message carries' % (when, t, carr))
        mention = [child_text(w, idtag) for w in want]
    _check_inspect(obj, op, add, when, mention)


def _check_inspect(obj, op, add, when, mention):
    buf = io.StringIO()
    try:
        with contextlib.redirect_stdout(buf):
            obj.inspect()
    except Exception as e:   # noqa
        add('C20.inspect', '%s%s.inspect() raised %s: %s' % (when, op['type'], type(e).__name__, e))
        return None
    text = buf.getvalue()
    for i in mention:
        if i is not None and i not in text:
            add('C20.inspect', '%s%s.inspect() does not mention source %r' % (when, op['type'], i))
    return text
