"""Worker process: runs a range of seeds and writes one JSON result file.

Started by ``/verif/check`` as ``/venv/bin/python [-O] [-W error] -m sim.worker JOB.json``.
"""
import faulthandler
import json
import os
import sys
import time
import traceback
import warnings
from collections import Counter


def seed_of(base, i):
    return base * 1_000_003 + i


def strip_restarts(trace):
    t = dict(trace)
    t['steps'] = [s for s in trace['steps'] if s['k'] != 'restart']
    return t


def solo(trace, checks=None):
    t = dict(trace)
    cfg = dict(trace['config'])
    cfg['twin'] = False
    cfg['double'] = False
    if checks is not None:
        cfg['checks'] = checks
    t['config'] = cfg
    t['keep_log'] = True
    return t


def msg_events(res):
    return [tuple(e[2:]) for e in (res['log'] or []) if e[1] in ('msg', 'create', 'unreadable', 'misclassified')]


def run_one(seed, profile, job):
    """-> result dict of engine.execute (+ extra violations of dual modes)"""
    from .plan import generate
    from .engine import execute
    trace = generate(seed, profile, faulty=job.get('faulty'))
    if job.get('checks') is not None:
        trace['config']['checks'] = job['checks']
    if job.get('keep_log'):
        trace['keep_log'] = True
    res = execute(trace)
    if job.get('dual_restart') and any(s['k'] == 'restart' for s in trace['steps']):
        ck = {'roundtrip': False, 'accessors': False, 'message': False}
        a = execute(solo(trace, ck))
        b = execute(solo(strip_restarts(trace), ck))
        ea, eb = msg_events(a), msg_events(b)
        res['stats']['dual_restart'] = res['stats'].get('dual_restart', 0) + 1
        if ea != eb:
            k = next((i for i, (x, y) in enumerate(zip(ea, eb)) if x != y), min(len(ea), len(eb)))
            res['violations'].append({
                'clause': 'C14.restart-equiv', 'prop': 'C14', 'step': -1,
                'detail': 'continuing from durable state after a restart differs from never restarting, at merged message #%d: %r vs %r' % (
                    k, ea[k] if k < len(ea) else None, eb[k] if k < len(eb) else None),
                'sig': {'clause': 'C14.restart-equiv', 'type': (ea[k][0] if k < len(ea) and ea[k] else None)}})
    return res, trace


def main():
    faulthandler.enable()
    job = json.load(open(sys.argv[1]))
    faulthandler.dump_traceback_later(job.get('hard_timeout', 3600), exit=True)
    warnings.simplefilter('ignore')
    sys.path.insert(0, os.path.dirname(os.path.dirname(os.path.abspath(__file__))))
    t0 = time.time()
    deadline = t0 + job['deadline_s'] if job.get('deadline_s') else None
    out = {'runs': 0, 'steps': 0, 'violations': [], 'foreign': Counter(), 'stats': Counter(), 'probes': Counter(),
           'cov': set(), 'states': set(), 'merges': 0, 'errors': [], 'digests': {}, 'viol_total': 0, 'flags': {'O': not __debug__, 'Werror': 'error' in sys.warnoptions}}
    prop = job['prop']
    profiles = job['profiles']
    samples = []
    for i in range(job['start'], job['start'] + job['count'], job.get('stride', 1)):
        if deadline and time.time() > deadline:
            break
        seed = seed_of(job['seed_base'], i)
        profile = profiles[i % len(profiles)]
        try:
            res, trace = run_one(seed, profile, job)
        except Exception:   # noqa - a harness error, never a violation
            out['errors'].append({'seed': seed, 'profile': profile, 'trace': traceback.format_exc()[-1500:]})
            if len(out['errors']) > 5:
                break
            continue
        out['runs'] += 1
        out['steps'] += res['steps']
        if res.get('fatal') and not res['violations']:
            out['errors'].append({'seed': seed, 'profile': profile, 'trace': 'fatal: ' + res['fatal']})
        for k, v in res['stats'].items():
            out['stats'][k] += v
        for k, v in res['probes'].items():
            out['probes'][k] += v
        out['cov'].update(res['cov'])
        out['states'].update(res.get('state_digests', []))
        out['merges'] += res.get('merges', 0)
        if job.get('want_digests'):
            out['digests'][str(seed)] = res['digest']
        for v in res['violations']:
            if v['prop'] == prop or prop == '*':
                out['viol_total'] += 1
                if len(out['violations']) < job.get('max_viol', 400):
                    v = dict(v)
                    v['seed'] = seed
                    v['profile'] = profile
                    out['violations'].append(v)
            else:
                out['foreign'][v['clause']] += 1
        if len(samples) < 2 and res['steps'] > 3:
            samples.append({'seed': seed, 'profile': profile, 'steps': [
                (s['k'], s.get('op', {}).get('type'), s.get('path'), s.get('channel'), s.get('io', {}).get('kind') if s.get('io') else None)
                for s in trace['steps'][:40]]})
    out['samples'] = samples
    out['wall'] = time.time() - t0
    out['cov'] = sorted(out['cov'])
    out['states'] = len(out['states'])
    for k in ('foreign', 'stats', 'probes'):
        out[k] = dict(out[k])
    with open(job['out'], 'w') as f:
        json.dump(out, f)


if __name__ == '__main__':
    main()
