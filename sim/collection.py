"""Batch driver: MosCollection over the store (C09, C10, C11, C12.progress, C18) and S3 listings."""
import warnings

from . import ops as O
from .xmlmodel import T, N


# ---------------------------------------------------------------------------
# planning
# ---------------------------------------------------------------------------

def _store_steps(steps):
    return [s for s in steps if s['k'] in ('create', 'msg')]


def plan_batches(steps, R, P, faulty):
    """append collection-level fault messages and batch steps to *steps*"""
    st = _store_steps(steps)
    create = st[0]['op']
    ro_id = create.get('ro_id', 'RO1')
    last_mid = max(s['op']['mid'] for s in st)

    def extra(op):
        nonlocal last_mid
        last_mid += R.choice([1, 2, 7, 90])
        op = dict(op, mid=last_mid, env={})
        steps.append({'k': 'msg', 'op': op, 'knobs': {}, 'path': 'str', 'merge': False, 'extra': True})
        return len(_store_steps(steps)) - 1

    if create['mid'] > 3 and R.random() < 0.3:
        # a message filed with an id lower than the roCreate's: it sorts - and is applied - first
        lows = sorted(set(create['mid'] - R.randint(1, min(create['mid'] - 1, 60)) for _ in range(R.randint(1, 4))))
        for low in lows:
            steps.append({'k': 'msg', 'op': {'type': R.choice(['ReadyToAir', 'StoryDelete', 'StoryAppend']), 'ro_id': ro_id, 'mid': low,
                                              'env': {}, 'sources': ['nosuch-early'], 'shapes': {},
                                              'payload': [N('story', T('storyID', 'early-%d' % low), T('storySlug', 'early'))]},
                          'knobs': {}, 'path': 'str', 'merge': False, 'extra': True})
        st = _store_steps(steps)
    same_mid_extra = None
    if R.random() < 0.12:
        # another message filed under the roCreate's own message id (the roCreate leaves the readers, this one stays)
        steps.append({'k': 'msg', 'op': {'type': R.choice(['ReadyToAir', 'StoryAppend']), 'ro_id': ro_id, 'mid': create['mid'], 'env': {},
                                          'shapes': {}, 'payload': [N('story', T('storyID', 'same-mid'), T('storySlug', 'x'))]},
                      'knobs': {}, 'path': 'str', 'merge': False, 'extra': True, 'remid': True, 'key': 'same-mid-as-create.mos.xml'})
        st = _store_steps(steps)
        same_mid_extra = len(st) - 1
    usable = [i for i, s in enumerate(st) if s['op']['type'] != 'Raw' and not s.get('corrupt') and not s['op'].get('malformed') and not s.get('remid')]
    n_batches = R.choice([1, 1, 2, 3])
    for _ in range(n_batches):
        sel = list(usable)
        kind = R.choice(['plain', 'plain', 'plain', 'no-create', 'two-creates', 'two-deletes', 'no-delete', 'foreign', 'empty', 'subset', 'dup-entry'])
        if not faulty and R.random() < 0.5:
            kind = 'plain'
        if kind == 'no-create':
            sel = [i for i in sel if st[i]['op']['type'] != 'ROCreate']
        elif kind == 'two-creates':
            sel.append(extra({'type': 'ROCreate', 'ro_id': ro_id, 'payload': create['payload']}))
            if R.random() < 0.3:
                sel.append(extra({'type': 'ROCreate', 'ro_id': ro_id, 'payload': create['payload']}))
        elif kind == 'two-deletes':
            sel.append(extra({'type': 'RODelete', 'ro_id': ro_id}))
            if not any(st[i]['op']['type'] == 'RODelete' for i in sel[:-1]) or R.random() < 0.3:
                sel.append(extra({'type': 'RODelete', 'ro_id': ro_id}))
        elif kind == 'no-delete':
            sel = [i for i in sel if st[i]['op']['type'] != 'RODelete']
        elif kind == 'foreign':
            other = ro_id + '-other'
            t = R.choice(['ReadyToAir', 'RODelete', 'StoryDelete', 'ROCreate'])
            if t == 'StoryDelete':
                sel.append(extra({'type': t, 'ro_id': other, 'sources': ['S1']}))
            elif t == 'ROCreate':
                pay = [T('roID', other)] + [c for c in create['payload'] if c[0] != 'roID']
                sel.append(extra({'type': t, 'ro_id': other, 'payload': pay}))
            else:
                sel.append(extra({'type': t, 'ro_id': other}))
        elif kind == 'dup-entry' and sel:
            # the same file / string supplied twice: two messages, whatever the path says
            sel.append(R.choice(sel))
        elif kind == 'empty':
            sel = []
        elif kind == 'subset' and sel:
            keep = max(1, len(sel) - R.randint(1, 3))
            sel = sorted(R.sample(sel, keep))
        if same_mid_extra is not None and sel and R.random() < 0.7:
            sel.insert(R.randint(0, len(sel)), same_mid_extra)
        st = _store_steps(steps)
        order = list(range(len(sel)))
        R.shuffle(order)
        perms = []
        for _p in range(R.choice([2, 3, 4])):
            o2 = list(range(len(sel)))
            R.shuffle(o2)
            perms.append(o2)
        perms.append(list(range(len(sel))))
        perms.append(list(reversed(range(len(sel)))))
        ctor = R.choice(['files', 'strings', 'strings-bytes', 's3'])
        if kind == 'dup-entry':
            ctor = R.choice(['files', 'strings', 'strings-bytes'])      # a bucket holds one object per key
        steps.append({'k': 'batch', 'select': [sel[i] for i in order], 'kind': kind,
                      'ctor': ctor,
                      'allow_incomplete': R.random() < 0.5, 'strict': R.random() < 0.5,
                      'perms': perms, 'cross': R.random() < 0.5 and kind != 'dup-entry',
                      'page_size': R.randint(1, 7), 'noise_keys': R.random() < 0.4, 'slots': R.random() < 0.5 and kind != 'dup-entry'})


def plan_listing(steps, R, P, faulty):
    for _ in range(R.choice([1, 2])):
        n = R.choice([0, 0, 1, 2, 3, 5, 8, 13, 21])
        keys = []
        for i in range(n):
            name = R.choice(['%d-x' % R.randint(1, 99999), 'f%03d' % i, 'dir/f%d' % i, 'ü%d' % i, 'x y %d' % i,
                             '2020-01-0%dT10+0100' % (i % 9 + 1), '100%%25-%d' % i, 'a%%41b%%2B%d' % i])
            suffix = R.choice(['.mos.xml', '.mos.xml', '.mos.xml', '.xml', '', '.mos.xml.bak', '.MOS.XML'])
            keys.append(name + suffix)
        prefix = R.choice(['lst/', 'lst/', 'lst', '', None, 'lst/dir/', 'nothing-here/'])
        put_prefix = R.choice(['lst/', 'lst/', ''])
        if keys and R.random() < 0.2:
            # a prefix may be a whole key, or end anywhere inside one (also inside the suffix)
            k = put_prefix + R.choice(keys)
            prefix = k[:len(k) - R.choice([0, 0, 1, 4, 6])]
        steps.append({'k': 'listing', 'keys': sorted(set(keys)), 'put_prefix': put_prefix,
                      'prefix': prefix, 'suffix': R.choice([None, None, '.xml', '.mos.xml', '']),
                      'page_size': R.choice([1, 1, 2, 3, 5, 7, 1000]),
                      'fault_page': (R.randint(0, 3) if faulty and R.random() < 0.15 else None),
                      'empty_page': (R.randint(0, 3) if R.random() < 0.2 else None)})


# ---------------------------------------------------------------------------
# execution
# ---------------------------------------------------------------------------

def _accept_expected(ops_sel, allow_incomplete):
    if not ops_sel:
        return False, 'empty'
    ids = {o.get('ro_id', 'RO1') for o in ops_sel}
    nc = sum(1 for o in ops_sel if o['type'] == 'ROCreate')
    nd = sum(1 for o in ops_sel if o['type'] == 'RODelete')
    if len(ids) != 1:
        return False, 'mixed-ids'
    if nc != 1:
        return False, '%d-creates' % nc
    if nd > 1:
        return False, '%d-deletes' % nd
    if not allow_incomplete and nd != 1:
        return False, 'incomplete'
    return True, 'ok'


def _build(run, ctor, ents, allow_incomplete, tag, page_size=None, noise=False, slots=False):
    """-> (mc, exc)"""
    MC = run_mc()
    try:
        if ctor == 'files':
            paths = [e['path'] for e in ents]
            if slots:
                # a spool directory refilled under the same file names for every collection
                paths = [run.fs.write('slot-%02d.mos.xml' % i, e['data']) for i, e in enumerate(ents)]
            return MC.MosCollection.from_files(paths, allow_incomplete=allow_incomplete), None
        if ctor == 'strings':
            return MC.MosCollection.from_strings([e['text'] if e['text'] is not None else e['data'] for e in ents],
                                                 allow_incomplete=allow_incomplete), None
        if ctor == 'strings-bytes':
            return MC.MosCollection.from_strings([e['data'] for e in ents], allow_incomplete=allow_incomplete), None
        # s3: the supply order is the bucket's listing order
        prefix = 'batch-%s/' % tag
        if slots:
            # the same prefix and key names are re-used for every collection (a spool prefix)
            prefix = 'spool/'
            b = run.s3.buckets.setdefault(run.bucket, {})
            for k in [k for k in b if k.startswith(prefix)]:
                del b[k]
            for i, e in enumerate(ents):
                run.s3.put(run.bucket, prefix + 'slot-%02d.mos.xml' % i, e['data'])
            ents = []
        for e in ents:
            run.s3.put(run.bucket, prefix + e['key'], e['data'])
        if noise:
            run.s3.put(run.bucket, prefix + 'readme.txt', b'not a mos file')
            run.s3.put(run.bucket, prefix + '0-backup.mos.xml.bak', b'<mos/>')
            run.s3.put(run.bucket, 'batch-%s-other/9-x.mos.xml' % tag, b'<mos/>')
        old = run.s3.page_size
        if page_size:
            run.s3.page_size = page_size
        try:
            return MC.MosCollection.from_s3(bucket_name=run.bucket, prefix=prefix, allow_incomplete=allow_incomplete), None
        finally:
            run.s3.page_size = old
    except Exception as e:    # noqa
        return None, e


def run_mc():
    import mosromgr.moscollection as MC
    return MC


def _fold(ents_sorted, create_ent):
    """manual fold with the real + over freshly parsed messages -> (states, failing, crash)"""
    import mosromgr.mostypes as MT
    from mosromgr import exc as MX
    ro = MT.RunningOrder.from_string(create_ent['text'] if create_ent['text'] is not None else create_ent['data'])
    states = [str(ro)]
    failing = []
    _fold.elem_warnings = []          # per message: categories of the element-level warnings
    msgs = [MT.MosFile.from_string(e['text'] if e['text'] is not None else e['data']) for e in ents_sorted]
    for pos, (e, m) in enumerate(zip(ents_sorted, msgs)):
        with warnings.catch_warnings(record=True) as w:
            warnings.resetwarnings()
            warnings.simplefilter('always')
            try:
                ro = ro + m
            except MX.MosMergeError as ex:
                failing.append((e['mid'], type(ex).__name__, pos))
            except Exception as ex:    # noqa
                return states, failing, (e['mid'], type(ex).__name__, pos)
        _fold.elem_warnings.append(sorted(x.category.__name__ for x in w if issubclass(x.category, MX.MosRoMgrWarning)))
        states.append(str(ro))
    return states, failing, None


def _merge(mc, strict):
    from mosromgr import exc as MX
    with warnings.catch_warnings(record=True) as w:
        warnings.resetwarnings()
        warnings.simplefilter('always')
        from .engine import HOST_FILTER
        warnings.filterwarnings('ignore', message=HOST_FILTER)
        exc = None
        try:
            mc.merge(strict=strict)
        except Exception as e:   # noqa
            exc = e
    nsw = [x for x in w if issubclass(x.category, MX.MosMergeNonStrictWarning)]
    _merge.elem_warnings = sorted(x.category.__name__ for x in w if issubclass(x.category, MX.MosRoMgrWarning)
                                  and not issubclass(x.category, MX.MosMergeNonStrictWarning))
    return exc, len(nsw)


def do_batch(run, step):
    from mosromgr import exc as MX
    import mosromgr.mostypes as MT
    sel = [run.store[i] for i in step['select'] if i < len(run.store)]
    ops_sel = [e['op'] for e in sel]
    allow = step['allow_incomplete']
    strict = step['strict']
    ctor = step['ctor']
    tag = '%d' % run.step_i
    sig = {'ctor': ctor, 'kind': step.get('kind'), 'allow_incomplete': allow, 'strict': strict}
    add = lambda clause, detail: run.add(clause, detail, None, dict(sig))
    run.stats['batch.' + ctor] += 1
    want_ok, why = _accept_expected(ops_sel, allow)
    sig['why'] = why
    run.cov.add(('batch', ctor, why, allow, strict, min(len(sel), 6)))

    mc, exc = _build(run, ctor, sel, allow, tag, step.get('page_size'), step.get('noise_keys'), slots=step.get('slots'))
    # ---- C11: accepted exactly when it describes one running order ----------------------
    if want_ok:
        if mc is None:
            add('C11.accept', 'a valid collection (%d messages) was rejected with %s: %s' % (len(sel), type(exc).__name__, exc))
            if not isinstance(exc, MX.InvalidMosCollection):
                # the messages are fine (each parses from a string): this source cannot deliver them
                add('C18.collection', 'constructor %s cannot build a collection the other sources can: %s' % (ctor, type(exc).__name__))
                add('C09.fold', 'a collection over %s could not be built (%s) although adding the messages one by one works' % (ctor, type(exc).__name__))
            return
    else:
        if mc is not None:
            add('C11.accept', 'an invalid collection (%s) was accepted' % why)
            return
        if not isinstance(exc, MX.InvalidMosCollection):
            add('C11.accept', 'an invalid collection (%s) was rejected with %s instead of InvalidMosCollection' % (why, type(exc).__name__))
        run.stats['batch.rejected'] += 1
        return
    create_ent = next(e for e in sel if e['op']['type'] == 'ROCreate')
    others = sorted((e for e in sel if e is not create_ent), key=lambda e: e['mid'])
    mids = [e['mid'] for e in others]
    try:
        got_ro = mc.ro.message_id
        got_ids = [r.message_id for r in mc.mos_readers]
    except Exception as e:    # noqa
        add('C11.after', 'reading the accepted collection raised %s' % type(e).__name__)
        return
    if got_ro != create_ent['mid'] or type(mc.ro) is not MT.RunningOrder:
        add('C11.after', 'the collection\'s running order is %r (%s), expected the roCreate %r' % (got_ro, type(mc.ro).__name__, create_ent['mid']))
    try:
        got_kinds = sorted((r.message_id, r.mos_type.__name__) for r in mc.mos_readers)
    except Exception:    # noqa
        got_kinds = None
    want_kinds = sorted((e['mid'], O.expected_class(e['op'])) for e in others)
    if sorted(got_ids) != mids:
        add('C11.after', 'readers %r, expected every message but the roCreate %r' % (got_ids, mids))
    elif got_kinds is not None and got_kinds != want_kinds:
        add('C11.after', 'the remaining readers are %r, expected %r (every message but the roCreate)' % (got_kinds[:8], want_kinds[:8]))
    elif got_ids != mids:
        add('C10.order', 'readers are ordered %r, expected ascending numeric %r' % (got_ids, mids))
        run.probes['width-crossing'] += 1
    if len({len(str(m)) for m in mids}) > 1:
        run.probes['id-width-crossing'] += 1

    # ---- C07: nothing has been merged yet ---------------------------------------------------
    try:
        from xml.etree import ElementTree as _ET0
        had_meta = _ET0.fromstring(create_ent['data']).find('mosromgrmeta') is not None
        if bool(mc.completed) != had_meta:
            add('C07.flag', 'collection.completed is %r before anything was merged (the roCreate %s a completion record)' % (
                mc.completed, 'holds' if had_meta else 'holds no'))
    except Exception:    # noqa - an unreadable accessor is reported after the merge
        pass

    # ---- C18: readers are faithful ---------------------------------------------------------
    for r in mc.mos_readers:
        try:
            o1, o2 = r.mos_object, r.mos_object
            if (r.message_id, r.ro_id, r.mos_type) != (o1.message_id, o1.ro_id, type(o1)):
                add('C18.reader', 'reader reports (%r, %r, %s), the restored object is (%r, %r, %s)' % (
                    r.message_id, r.ro_id, r.mos_type.__name__, o1.message_id, o1.ro_id, type(o1).__name__))
            if o1 is o2 or o1.xml is o2.xml:
                add('C18.reader', 'two restores of one reader are the same object')
            elif str(o1) != str(o2) or type(o1) is not type(o2):
                add('C18.reader', 'two restores of one reader differ')
            ent = next(e for e in others if e['mid'] == r.message_id)
            try:
                ref = MT.MosFile.from_string(ent['data'])
            except Exception:    # noqa
                continue
            if str(o1) != str(ref) or type(o1) is not type(ref):
                add('C18.reader', 'restored object differs from the stored message %r' % r.message_id)
        except StopIteration:
            pass
        except Exception as e:    # noqa
            add('C18.reader', 'restoring a reader raised %s: %s' % (type(e).__name__, e))

    # ---- C09: merge == manual fold -------------------------------------------------------------
    try:
        states, failing, crash = _fold(others, create_ent)
    except Exception:    # noqa - a message of the accepted collection cannot be parsed on its own: no reference to compare with
        run.stats['batch.no-reference'] += 1
        return
    if len(failing) >= 3:
        run.probes['>=3-failing-in-one-merge'] += 1
    exc_m, n_nsw = _merge(mc, strict)
    final = str(mc)
    try:
        from xml.etree import ElementTree as _ET
        from .xmlmodel import canon_et as _ce, RoView as _RV, child_text as _ct
        _v = _RV(_ce(_ET.fromstring(final)))
        if mc.completed != bool(_v.metas):
            add('C07.flag', 'collection.completed is %r, the merged running order %s a completion record' % (mc.completed, 'holds' if _v.metas else 'holds no'))
        if (mc.ro_id, mc.ro_slug) != (_ct(_v.rc, 'roID'), _ct(_v.rc, 'roSlug')):
            add('C15.accessor', 'collection.ro_id / ro_slug %r differ from the merged running order' % ((mc.ro_id, mc.ro_slug),))
        repr(mc)
    except Exception as e:    # noqa
        add('C15.accessor', 'reading the merged collection raised %s: %s' % (type(e).__name__, e))
    merged_elem_warnings = list(_merge.elem_warnings)
    fold_elem_warnings = list(_fold.elem_warnings)
    run.stats['batch.merged'] += 1
    run.cov.add(('merge', strict, min(len(failing), 4), bool(crash)))
    if crash and strict and failing and failing[0][2] < crash[2]:
        crash = None        # a strict merge legitimately stops at the first merge error, before that message
    if crash:
        # a built-in exception inside a merge: C12 - the non-strict merge cannot run to the end
        if exc_m is None or isinstance(exc_m, MX.MosRoMgrException):
            add('C09.fold', 'adding message %r one by one raises %s, the collection merge did not' % crash[:2])
        if not strict:
            add('C12.progress', 'non-strict collection merge stopped at message %r with %s' % (crash[0], type(exc_m).__name__))
        return
    # ---- C06 in collection mode: the element-level warnings are those of adding one by one ---------
    upto = failing[0][2] + 1 if (strict and failing) else len(mids)
    want_w = sorted(c for ws in fold_elem_warnings[:upto] for c in ws)
    # only when the collection merged the same messages to the same state are differing warnings a defect of their own
    same_state = sorted(got_ids) == mids and final == (states[failing[0][2]] if (strict and failing) else states[-1])
    if not same_state:
        n_completed_gate = False
    else:
        n_completed_gate = True
    if not crash and same_state and merged_elem_warnings != want_w:
        add('C06.collection', 'collection merge emitted element warnings %r, adding one by one gives %r' % (merged_elem_warnings, want_w))
    # ---- C07 in collection mode: everything after the roDelete is refused ------------------------------
    n_completed = sum(1 for f in failing if f[1] == 'MosCompletedMergeError')
    if not crash and n_completed and n_completed_gate:
        if strict and failing[0][1] == 'MosCompletedMergeError' and type(exc_m).__name__ != 'MosCompletedMergeError':
            add('C07.terminal', 'strict collection merge: the message after the roDelete gave %s instead of MosCompletedMergeError' % type(exc_m).__name__)
        if not strict and exc_m is None and 0 < len(failing) - n_nsw <= n_completed:
            add('C07.terminal', 'non-strict collection merge: %d message(s) after the roDelete, %d of %d refusals reported' % (n_completed, n_nsw, len(failing)))
    if strict and failing:
        k = failing[0][2]
        if exc_m is None:
            add('C09.strict', 'strict merge swallowed the error of message %r' % failing[0][0])
        elif type(exc_m).__name__ != failing[0][1]:
            add('C09.strict', 'strict merge raised %s, adding message %r raises %s' % (type(exc_m).__name__, failing[0][0], failing[0][1]))
        if final != states[k]:
            add('C09.strict', 'after the strict merge failed at message %r the running order is not the result of the earlier messages' % failing[0][0])
        if n_nsw:
            add('C09.strict', 'strict merge emitted %d MosMergeNonStrictWarning' % n_nsw)
    else:
        if exc_m is not None:
            if isinstance(exc_m, MX.MosMergeError):
                add('C09.nonstrict' if not strict else 'C09.fold', '%s merge raised %s although %s' % (
                    'non-strict' if not strict else 'strict', type(exc_m).__name__,
                    'errors are to be downgraded' if not strict else 'no message fails one by one'))
            else:
                add('C09.fold', 'collection merge raised %s, adding the messages one by one does not' % type(exc_m).__name__)
                if not strict:
                    add('C12.progress', 'non-strict collection merge stopped with %s' % type(exc_m).__name__)
            return
        if n_nsw != (len(failing) if not strict else 0):
            add('C09.nonstrict', '%d MosMergeNonStrictWarning for %d failing message(s) %r' % (n_nsw, len(failing), failing))
        if final != states[-1]:
            add('C09.fold', 'merged collection differs from adding the %d messages one by one (%d failing)' % (len(others), len(failing)))

    # ---- C04 in collection mode: a roReplace that nothing later edits decides the content ------------------
    if not crash and exc_m is None:
        failing_ids = {f[0] for f in failing}
        last = max((i for i, e in enumerate(others) if e['op']['type'] == 'ROReplace' and e['mid'] not in failing_ids
                    and not e['op'].get('foreign')), default=None)
        if last is not None and all(e['op']['type'] in ('RODelete', 'ReadyToAir') or e['mid'] in failing_ids for e in others[last + 1:]):
            from xml.etree import ElementTree
            from .xmlmodel import canon_et, canon, RoView
            run.probes['collection-ends-in-roReplace'] += 1
            v = RoView(canon_et(ElementTree.fromstring(final)))
            if tuple(v.top) != tuple(canon(n) for n in others[last]['op']['payload']):
                add('C04.collection', 'the collection\'s last effective message is a roReplace, but the merged content is not the sent one')

    # ---- C10: independent of the supply order ------------------------------------------------------
    if crash or (strict and failing):
        perms = step.get('perms', [])[:1]
    else:
        perms = step.get('perms', [])
    base = [run.store[i] for i in step['select'] if i < len(run.store)]
    for pi, perm in enumerate(perms):
        if len(perm) != len(base):
            continue
        ents = [base[i] for i in perm]
        pctor = ctor if ctor != 's3' else 'files'     # the bucket decides the order of an S3 listing
        mc2, exc2 = _build(run, pctor, ents, allow, '%s-p%d' % (tag, pi))
        if mc2 is None:
            if isinstance(exc2, MX.InvalidMosCollection) or pctor == ctor:
                add('C10.perm', 'a permutation of an accepted collection was rejected with %s' % type(exc2).__name__)
            # otherwise this constructor cannot deliver the messages at all (C18 / C09 judge that): not a matter of order
            continue
        ids2 = [r.message_id for r in mc2.mos_readers]
        if ids2 != got_ids:
            add('C10.perm', 'reader order depends on the supply order: %r vs %r' % (ids2, got_ids))
        e2, n2 = _merge(mc2, strict)
        if (type(e2).__name__, str(mc2)) != (type(exc_m).__name__, final):
            add('C10.perm', 'merge result depends on the supply order')
        run.stats['batch.perm'] += 1
        # sorting MosFile objects orders them the same way
        try:
            objs = [MT.MosFile.from_string(e['data']) for e in ents]
            srt = [o.message_id for o in sorted(objs)]
            if srt != sorted([e['mid'] for e in ents]):
                add('C10.sort', 'sorted(MosFile objects) gives %r' % srt)
        except Exception as e:    # noqa
            add('C10.sort', 'sorting MosFile objects raised %s' % type(e).__name__)

    # ---- C18: the three constructors agree -----------------------------------------------------------
    if step.get('cross') and not crash:
        for other in ('files', 'strings', 'strings-bytes', 's3'):
            if other == ctor:
                continue
            mc3, exc3 = _build(run, other, base, allow, '%s-x%s' % (tag, other), step.get('page_size'))
            if mc3 is None:
                add('C18.collection', 'constructor %s rejects (%s) what %s accepts' % (other, type(exc3).__name__, ctor))
                continue
            e3, n3 = _merge(mc3, strict)
            if (type(e3).__name__, str(mc3), n3) != (type(exc_m).__name__, final, n_nsw):
                add('C18.collection', 'collections built by %s and %s merge to different results' % (ctor, other))
            run.stats['batch.cross'] += 1
    run.event(run.step_i, 'batch', ctor, why, strict, len(failing), len(final))


def do_listing(run, step):
    import mosromgr.utils.s3 as S3M
    bucket = 'listing-%d' % run.step_i
    for k in step['keys']:
        run.s3.put(bucket, step['put_prefix'] + k, b'<mos/>')
    run.s3.put(bucket, 'zzz/unrelated.mos.xml', b'<mos/>')
    prefix, suffix = step['prefix'], step['suffix']
    all_keys = sorted(run.s3.buckets[bucket], key=lambda k: k.encode('utf-8'))
    want_suffix = '.mos.xml' if suffix is None else suffix
    want = [k for k in all_keys if k.startswith(prefix or '') and k.endswith(want_suffix)]
    old = run.s3.page_size
    run.s3.page_size = step['page_size']
    run.s3.list_fault_page = step.get('fault_page')
    run.s3.empty_page_at = step.get('empty_page')
    fired0 = run.s3.fired['list_error']
    try:
        kw = {} if suffix is None else {'suffix': suffix}
        try:
            got = S3M.get_mos_files(bucket, prefix, **kw) if prefix is not None or True else None
            exc = None
        except Exception as e:    # noqa
            got, exc = None, e
    finally:
        run.s3.page_size = old
        run.s3.list_fault_page = None
        run.s3.empty_page_at = None
    if exc is None and got is not None and run.s3.fired['list_error'] == fired0:
        # the bucket changes; a second listing must see it
        extra_key = (prefix or '') + 'zz-late-arrival' + want_suffix
        run.s3.put(bucket, extra_key, b'<mos/>')
        run.s3.page_size = step['page_size']
        try:
            got2 = S3M.get_mos_files(bucket, prefix, **kw)
            if sorted(got2) != sorted(want + [extra_key]):
                run.add('C18.listing', 'a second listing after a new key arrived returned %r' % (got2,), None, {'second': True})
        except Exception as e:    # noqa
            run.add('C18.listing', 'second listing raised %s' % type(e).__name__, None, {'second': True})
        finally:
            run.s3.page_size = old
    pages = (len([k for k in all_keys if k.startswith(prefix or '')]) + step['page_size'] - 1) // step['page_size']
    run.cov.add(('listing', min(pages, 4), len(want) > 0, suffix, prefix is None, prefix == ''))
    if pages >= 3:
        run.probes['listing>=3pages'] += 1
    run.stats['listing'] += 1
    sig = {'page_size': step['page_size'], 'pages': pages, 'prefix': prefix, 'suffix': suffix}
    if run.s3.fired['list_error'] > fired0:
        if exc is None:
            run.add('C18.listing', 'a failed listing page was swallowed: %r returned' % (got,), None, sig)
        run.stats['fault.s3.listing-error-propagated'] += 1
        return
    if exc is not None:
        run.add('C18.listing', 'get_mos_files raised %s: %s' % (type(exc).__name__, exc), None, sig)
    elif sorted(got, key=lambda k: k.encode('utf-8')) != want:        # the property names no order for the listing
        run.add('C18.listing', 'listing returned %r, the bucket holds %r under the prefix with the suffix' % (got, want), None, sig)
    run.event(run.step_i, 'listing', len(want), pages)
