"""The simulated newsroom system (NCS) and channel: workload + fault plan generator.

``generate(seed, profile)`` returns a *trace*: a JSON-able dict in which every
choice is written out (DESIGN.md 3, 4, 5, 10).  Executing a trace never
consults a PRNG, so the trace is the replay file and the object the shrinker
works on.  The NCS keeps an id-level ``truth`` of the running order so that the
references it puts into messages are plausible; the truth is never compared
with the real state.
"""
import random

from .xmlmodel import N, T
from .ops import STORY_OPS, ITEM_OPS, OP_TABLE, MESSAGE_TAGS

PLAIN = 'abcdefghij KLMNOP 0123456789 .,;:-_/+*!?'
MARKUP = '&<>"\''
UNI = 'éüßøñ中文日本кириллица😀𝄞€'


def _word(R, n=None, alphabet=PLAIN):
    n = n if n is not None else R.randint(1, 12)
    return ''.join(R.choice(alphabet) for _ in range(n))


def gen_text(R, rich=True):
    """Character data: plain, with markup-significant characters, Unicode, whitespace."""
    k = R.random()
    if not rich or k < 0.45:
        s = _word(R).strip() or 'x'
    elif k < 0.65:
        s = _word(R, R.randint(1, 6)) + R.choice(MARKUP) + _word(R, R.randint(0, 6)) + R.choice(MARKUP + ' ')
    elif k < 0.85:
        s = _word(R, R.randint(0, 5)) + ''.join(R.choice(UNI) for _ in range(R.randint(1, 4))) + _word(R, R.randint(0, 4))
    elif k < 0.93:
        s = _word(R, 3) + R.choice(['\n', '\t', '  ', '\n  ']) + _word(R, 3)
    else:
        s = ']]>' + _word(R, 3)
    return s


def gen_ptext(R):
    """Paragraph text classes for C17."""
    k = R.random()
    if k < 0.35:
        return gen_text(R)
    if k < 0.45:
        return ''
    if k < 0.55:
        return R.choice([' ', '   ', '\n', '\t ', ' \n\t '])
    if k < 0.65:
        return '(' + _word(R) + ')'
    if k < 0.72:
        return '<' + _word(R) + '>'
    if k < 0.78:
        return R.choice(['(', '<']) + _word(R)                # half-bracketed (open)
    if k < 0.84:
        return _word(R).strip() + R.choice([')', '>'])        # half-bracketed (close)
    if k < 0.90:
        return _word(R, 3) + ' (' + _word(R, 4) + ') ' + _word(R, 2)   # inner brackets
    if k < 0.93:
        o, c = R.choice(['()', '<>'])
        return o + _word(R, 4).strip() + R.choice(['\n', '\n ', ' \n\t']) + _word(R, 5).strip() + c      # note spanning lines
    if k < 0.96:
        return '  ' + R.choice(['(', '<']) + _word(R, 4).strip() + R.choice([')', '>']) + ' \n'
    return R.choice(['(', '<']) + _word(R, 3) + R.choice(['>', ')'])   # mismatched pair kinds


class Gen:
    def __init__(self, seed, profile):
        self.seed = seed
        self.R = random.Random(seed)
        self.P = profile
        self.sid_counter = self.R.choice([0, 0, 0, 7, 8, 96, 98, 997])     # ids such as S9/S10/S100 coexist
        self.iid_counter = self.R.choice([0, 0, 0, 8, 97])
        self.sid_style = self.R.choice(['S%d', 'STORY%d', 'st;%d', 'é%d', 'a&b<%d>', '%d', "O'B;%d", 'q"%d"', '[%d]', 'a b %d'])
        self.iid_style = self.R.choice(['I%d', 'ITEM%d', 'it;%d', 'ü%d', '%d', "IT'S;%d", 'i"%d', '*[%d]'])
        self.graveyard_s = []
        self.graveyard_i = []
        self.rich = profile.get('rich', True) and self.R.random() < 0.8
        self.durations = self.R.choice(profile.get('durations', ['all', 'all', 'mixed', 'none']))
        self.ro_id = self.R.choice(['RO1', 'ro;5', 'RÖ 7', 'a&b'])
        self.stats = {}

    # ---- ids -------------------------------------------------------------
    def new_sid(self):
        if getattr(self, 'faulty', False) and getattr(self, 'truth', None) and self.R.random() < 0.03:
            base = self.R.choice(self.truth)[0]
            v = base + self.R.choice([' ', '0', '.'])
            if v not in [s for s, _ in self.truth]:
                return v            # an id that differs from an existing one only by padding / one character
        self.sid_counter += 1
        return self.sid_style % self.sid_counter

    def new_iid(self):
        self.iid_counter += 1
        return self.iid_style % self.iid_counter

    # ---- payload ---------------------------------------------------------
    def gen_other(self, depth=0):
        R = self.R
        tag = R.choice(['storyPresenter', 'storyPresenterRR', 'mosAbstract', 'note', 'custom', 'x-y', 'storyNum'])
        if depth >= 2 and R.random() < 0.12:
            # body-level names nested deeper are not part of the story body
            if R.random() < 0.7:
                return ['p', {}, gen_ptext(R), '', []]
            return N('item', T('itemID', 'nested-%d' % R.randint(1, 9)), T('itemSlug', 'nested'))
        if depth >= 2 and R.random() < 0.08:
            # a reference to a story / item that is, or may soon be, in the running order - mentioned, not a child
            if R.random() < 0.6:
                return T('storyID', self.sid_style % (self.sid_counter + R.randint(0, 3)))
            return T('itemID', self.iid_style % max(1, self.iid_counter + R.randint(-2, 2)))
        if depth >= 2 and R.random() < 0.10:
            # names that mean something at the top level must mean nothing down here
            tag = R.choice(['roCreate', 'roDelete', 'mosromgrmeta', 'roStorySend', 'roElementAction', 'roReplace', 'messageID', 'storyBody'])
        attrs = {}
        if R.random() < 0.4:
            attrs[R.choice(['a', 'type', 'b'])] = gen_text(R, self.rich).replace('\n', ' ').replace('\t', ' ')
        ch = []
        if depth < 2 and R.random() < 0.35:
            for _ in range(R.randint(1, 3)):
                c = self.gen_other(depth + 1)
                if R.random() < 0.3:
                    c[3] = gen_text(R, self.rich)           # mixed content: tail text
                ch.append(c)
        text = gen_text(R, self.rich) if R.random() < 0.7 else ''
        return [tag, attrs, text, '', ch]

    def gen_extmeta(self, schema, timing=None, note=None):
        R = self.R
        pl = []
        if timing:
            for k in ('StoryDuration', 'TextTime', 'MediaTime', 'StoryStarted', 'StoryEnded'):
                if k in timing:
                    pl.append(T(k, timing[k]))
            R.shuffle(pl)
        if note is not None:
            k = R.random()
            if k < 0.7:
                pl.append(N('studioCommands', N('studioCommand', T('text', note), type='note')))
            elif k < 0.8:
                pl.append(N('studioCommands', N('studioCommand', type='note')))                 # a note command without text
            elif k < 0.9:
                pl.append(N('studioCommands', N('studioCommand', T('text', note), type='cue'),
                            N('studioCommand', T('other', 'x'), T('text', note + '!'), type='note')))
            else:
                pl.append(N('studioCommand', T('text', ''), type='note'))
        if R.random() < 0.3:
            pl.append(self.gen_other(1))
        ch = [T('mosSchema', schema), N('mosPayload', *pl)] if schema is not None else [N('mosPayload', *pl)]
        if R.random() < 0.3:
            ch.insert(0, T('mosScope', R.choice(['PLAYLIST', 'OBJECT', 'STORY'])))
        return N('mosExternalMetadata', *ch)

    def gen_timing(self):
        R = self.R
        t = {}
        dur = lambda: R.choice(['%d' % R.randint(0, 90), '%.2f' % (R.randint(0, 400) / 4.0), '%.1f' % (R.randint(0, 100) / 2.0)])
        k = R.random()
        if k < 0.3:
            t['StoryDuration'] = dur()
            if R.random() < 0.4:
                t['TextTime'] = dur()
            if R.random() < 0.4:
                t['MediaTime'] = dur()
        elif k < 0.55:
            t['TextTime'] = dur()
            t['MediaTime'] = dur()
        elif k < 0.7:
            t['TextTime'] = dur()
        elif k < 0.85:
            t['MediaTime'] = dur()
        else:
            t['StoryDuration'] = dur()
        return t

    def gen_stamp(self):
        R = self.R
        return '2020-%02d-%02dT%02d:%02d:%02d' % (R.randint(1, 12), R.randint(1, 28), R.randint(0, 23), R.randint(0, 59), R.randint(0, 59))

    def gen_item(self, iid=None):
        R = self.R
        iid = iid if iid is not None else self.new_iid()
        ch = [T('itemID', iid)]
        if R.random() < 0.7:
            ch.append(T('itemSlug', gen_text(R, self.rich)))
        if R.random() < 0.4:
            ch.append(T('objID', _word(R, 6)))
        if R.random() < 0.3:
            ch.append(T('mosID', 'mos.' + _word(R, 3, 'abc')))
        if R.random() < 0.3:
            ch.append(T('objType', R.choice(['VIDEO', 'AUDIO', 'STILL'])))
        if R.random() < 0.35:
            ch.append(self.gen_extmeta('http://item/' + _word(R, 3, 'abc'), note=(gen_text(R, self.rich) if R.random() < 0.7 else None)))
        if R.random() < 0.2:
            ch.append(self.gen_other(1))
        it = N('item', *ch)
        if R.random() < 0.12:
            it[1][R.choice(['a', 'changed', 'status'])] = _word(R, R.randint(1, 4)).strip() or 'x'
        return it

    def gen_story(self, sid=None, item_ids=None, n_items=None):
        R = self.R
        sid = sid if sid is not None else self.new_sid()
        ch = [T('storyID', sid)]
        if R.random() < 0.75:
            ch.append(T('storySlug', gen_text(R, self.rich)))
        if R.random() < 0.3:
            ch.append(T('storyNum', R.choice(['', 'A1', '7'])))
        has_dur = self.durations == 'all' or (self.durations == 'mixed' and R.random() < 0.6)
        explicit = R.random() < self.P.get('explicit_times', 0.25)
        if has_dur or explicit or R.random() < 0.15:
            timing = self.gen_timing() if has_dur else {}
            if explicit:
                if R.random() < 0.7:
                    timing['StoryStarted'] = self.gen_stamp()
                if R.random() < 0.6:
                    timing['StoryEnded'] = self.gen_stamp()
            ch.append(self.gen_extmeta('http://timing/' + _word(R, 2, 'ab'), timing=timing))
        if n_items is None:
            n_items = R.randint(0, self.P.get('max_items', 5))
        ids = list(item_ids) if item_ids is not None else [self.pick_item_id_for_new() for _ in range(n_items)]
        # de-duplicate inside one story
        seen = set()
        ids = [i for i in ids if not (i in seen or seen.add(i))]
        body = [self.gen_item(i) for i in ids]
        for _ in range(R.randint(0, self.P.get('max_paras', 4))):
            body.insert(R.randint(0, len(body)), T('p', gen_ptext(R)))
        for _ in range(R.choice([0, 0, 1, 2]) if self.P.get('others', True) else 0):
            body.insert(R.randint(0, len(body)), self.gen_other(1))
        ch.extend(body)
        if R.random() < 0.2:
            ch.append(self.gen_extmeta('http://other/' + _word(R, 2, 'ab')))
        st = N('story', *ch)
        if R.random() < 0.12:
            st[1][R.choice(['a', 'changed', 'status'])] = _word(R, R.randint(1, 4)).strip() or 'x'
        return st

    def pick_item_id_for_new(self):
        # item ids repeat across stories on purpose
        R = self.R
        if self.iid_counter and R.random() < 0.45:
            return self.iid_style % R.randint(1, self.iid_counter)
        return self.new_iid()

    def gen_meta(self, tag=None):
        R = self.R
        tag = tag or R.choice(['roChannel', 'roEdDur', 'roTrigger', 'macroRoIn', 'macroRoOut', 'roCustom'])
        m = T(tag, gen_text(R, self.rich) if R.random() < 0.9 else '')
        if R.random() < 0.3:
            m[1][R.choice(['a', 'type', 'lang'])] = _word(R, R.randint(1, 5)).strip() or 'x'
        if R.random() < 0.08:
            m[4].append(self.gen_other(1))
        return m

    def gen_ro_content(self, n_stories):
        """children of a roCreate / roReplace element"""
        R = self.R
        head = [T('roID', self.ro_id), T('roSlug', gen_text(R, self.rich))]
        if R.random() < 0.5:
            head.append(self.gen_meta('roChannel'))
        k = R.random()
        if k < 0.6:
            head.append(T('roEdStart', self.gen_stamp()))
        elif k < 0.75:
            head.append(T('roEdStart', ''))
        if R.random() < 0.3:
            head.append(self.gen_meta('roEdDur'))
        if R.random() < 0.3:
            head.append(self.gen_meta('roTrigger'))
        for sch in R.sample(['http://ro/a', 'http://ro/b', 'http://ro/c', None], R.choice([0, 0, 1, 2])):
            head.append(self.gen_extmeta(sch))
        if R.random() < 0.3:
            R.shuffle(head)
        stories = [self.gen_story() for _ in range(n_stories)]
        placement = R.choice(self.P.get('meta_placement', ['before', 'before', 'mixed', 'after']))
        out = head + stories
        if placement in ('mixed', 'after'):
            extra_tags = [t for t in ['macroRoIn', 'macroRoOut', 'roCustom', 'roTrigger2'] if R.random() < 0.6]
            for tg in extra_tags:
                m = self.gen_meta(tg)
                if placement == 'after':
                    out.append(m)
                else:
                    out.insert(R.randint(len(head) if R.random() < 0.5 else 0, len(out)), m)
        return out


def ids_of_content(content):
    """id-level truth from roCreate children"""
    truth = []
    for c in content:
        if c[0] == 'story':
            sid = next((x[2] for x in c[4] if x[0] == 'storyID'), None)
            items = [next((y[2] for y in x[4] if y[0] == 'itemID'), None) for x in c[4] if x[0] == 'item']
            truth.append([sid, items])
    return truth


# ---------------------------------------------------------------------------
# id-level truth and op generation
# ---------------------------------------------------------------------------

def _seq_move(seq, sources, target):
    """protocol move on a list of ids: sources (in order) directly before target / at end"""
    srcs = [s for s in sources if s in seq]
    rest = [x for x in seq if x not in srcs]
    if target is None or target not in rest:
        return rest + srcs
    i = rest.index(target)
    return rest[:i] + srcs + rest[i:]


class Ncs(Gen):
    """Generates the op stream of one run."""

    SHAPES_CLEAN = {'existing': 1.0}
    SHAPES_FAULTY = {'existing': 0.68, 'unknown': 0.08, 'stale': 0.07, 'blank': 0.08, 'missing': 0.04, 'near': 0.05}

    def __init__(self, seed, profile, faulty):
        super().__init__(seed, profile)
        self.faulty = faulty
        self.truth = []          # [[sid, [iids]], ...]
        self.shapes = dict(self.SHAPES_FAULTY if faulty else self.SHAPES_CLEAN)
        # swarm: zero some op families for this run
        w = dict(profile['weights'])
        fam = [t for t in w if w[t] > 0]
        if len(fam) > 4 and self.R.random() < 0.6:
            for t in self.R.sample(fam, self.R.randint(1, len(fam) // 2)):
                if t not in profile.get('keep', ()):
                    w[t] = 0
        self.weights = w

    # ---- helpers ---------------------------------------------------------
    def sids(self):
        return [s for s, _ in self.truth]

    def story_entry(self, sid):
        for e in self.truth:
            if e[0] == sid:
                return e
        return None

    def draw_shape(self, allow_blank=True, allow_missing=False, pool=True):
        R = self.R
        sh = dict(self.shapes)
        if not allow_blank:
            sh.pop('blank', None)
        if not allow_missing:
            sh.pop('missing', None)
        if not pool:
            sh.pop('existing', None)
            if not sh:
                return 'unknown'
        names = sorted(sh)
        return R.choices(names, [sh[n] for n in names])[0]

    def near(self, x, pool):
        """an id that is NOT x but close to it: padded, other case, a prefix, an extension"""
        R = self.R
        for _ in range(6):
            v = R.choice([x + ' ', ' ' + x, x + '\n', x.swapcase(), x[:-1], x + '0', x + x[-1:], '\t' + x + ' '])
            if v and v != x and v not in pool and v.strip(' \t\n') != '':
                return v
        return x + '~'

    def ref_story(self, allow_blank=True, allow_missing=False, exclude=()):
        """-> (ref, shape)"""
        R = self.R
        pool = [s for s in self.sids() if s not in exclude]
        shape = self.draw_shape(allow_blank, allow_missing, bool(pool))
        if shape == 'near':
            if pool:
                return self.near(R.choice(pool), self.sids()), 'near'
            shape = 'unknown'
        if shape == 'existing':
            return R.choice(pool), shape
        if shape == 'stale':
            if self.graveyard_s:
                return R.choice(self.graveyard_s), shape
            shape = 'unknown'
        if shape == 'unknown':
            return 'nosuch-%d' % R.randint(1, 99), shape
        if shape == 'blank':
            return None, shape
        return False, 'missing'

    def ref_item(self, entry, allow_blank=True, allow_missing=False, exclude=()):
        R = self.R
        pool = [i for i in (entry[1] if entry else []) if i not in exclude]
        shape = self.draw_shape(allow_blank, allow_missing, bool(pool))
        if shape == 'near':
            if pool:
                return self.near(R.choice(pool), entry[1]), 'near'
            shape = 'unknown'
        if shape == 'existing':
            return R.choice(pool), shape
        if shape == 'stale':
            others = [i for e in self.truth for i in e[1] if not entry or i not in entry[1]] + self.graveyard_i
            if others:
                return R.choice(others), shape      # an id that lives in another story / is gone
            shape = 'unknown'
        if shape == 'unknown':
            return 'noitem-%d' % R.randint(1, 99), shape
        if shape == 'blank':
            return None, shape
        return False, 'missing'

    def pick_sources(self, pool, n, target, cls):
        """choose n distinct sources from pool (ordered list) relative to target index by class"""
        R = self.R
        if not pool:
            return []
        idx = list(range(len(pool)))
        ti = pool.index(target) if target in pool else None
        cand = idx
        if ti is not None:
            if cls == 'before':
                cand = [i for i in idx if i < ti]
            elif cls == 'after':
                cand = [i for i in idx if i > ti]
            elif cls == 'adjacent-before':
                cand = [i for i in idx if i == ti - 1]
            elif cls == 'adjacent-after':
                cand = [i for i in idx if i == ti + 1]
            elif cls == 'both':
                cand = [i for i in idx if i != ti]
            elif cls == 'self':
                cand = [ti]
            else:
                cand = [i for i in idx if i != ti]
        if not cand:
            cand = [i for i in idx if i != ti] or idx
        n = min(n, len(cand))
        chosen = R.sample(cand, n)
        if R.random() < 0.5:
            chosen.sort()
        elif R.random() < 0.5:
            chosen.sort(reverse=True)
        return [pool[i] for i in chosen]

    MOVE_CLASSES = ['before', 'after', 'adjacent-before', 'adjacent-after', 'both', 'first', 'last', 'end', 'self']

    def draw_move(self, pool, max_sources):
        """-> (sources, target_ref, tshape, cls).  target_ref None = end."""
        R = self.R
        classes = list(self.MOVE_CLASSES)
        if not self.faulty:
            classes.remove('self')
        cls = R.choice(classes)
        n = R.choice([1, 1, 2, 2, 3, 4][:max(1, min(6, max_sources + 2))])
        n = min(n, max_sources)
        if not pool:
            return [], None, 'blank', 'empty'
        if cls == 'end' or len(pool) == 1 and cls != 'self':
            return self.pick_sources(pool, n, None, 'any'), None, 'blank', 'end'
        if cls == 'first':
            target = pool[0]
        elif cls == 'last':
            target = pool[-1]
        else:
            target = R.choice(pool)
        srcs = self.pick_sources(pool, n, target, cls)
        return srcs, target, 'existing', cls

    def corrupt_refs(self, refs, pool_kind, entry=None):
        """faulty runs: replace some list members by unknown/stale/repeated ids -> (refs, shapes)"""
        R = self.R
        shapes = ['existing'] * len(refs)
        if not self.faulty:
            return refs, shapes
        refs = list(refs)
        for i in range(len(refs)):
            k = R.random()
            if k < 0.10:
                refs[i] = ('nosuch-%d' if pool_kind == 's' else 'noitem-%d') % R.randint(1, 99)
                shapes[i] = 'unknown'
            elif k < 0.16:
                g = self.graveyard_s if pool_kind == 's' else self.graveyard_i
                if g:
                    refs[i] = R.choice(g)
                    shapes[i] = 'stale'
            elif k < 0.20 and i > 0:
                refs[i] = refs[R.randrange(i)]
                shapes[i] = 'repeat'
            elif k < 0.23:
                refs[i] = None
                shapes[i] = 'blank'
            elif k < 0.28 and isinstance(refs[i], str):
                refs[i] = self.near(refs[i], self.sids() if pool_kind == 's' else (entry[1] if entry else []))
                shapes[i] = 'near'
        if not refs and R.random() < 0.5:
            refs = [('nosuch-%d' if pool_kind == 's' else 'noitem-%d') % R.randint(1, 99)]
            shapes = ['unknown']
        return refs, shapes

    def new_stories(self, n, dup_ok):
        R = self.R
        out = []
        for _ in range(n):
            if dup_ok and self.faulty and self.sids() and R.random() < 0.2:
                out.append(self.gen_story(R.choice(self.sids())))
            elif self.graveyard_s and R.random() < 0.12 and R.choice(self.graveyard_s) not in self.sids():
                # a story that was taken out earlier comes back under its old id
                gid = R.choice([x for x in self.graveyard_s if x not in self.sids()] or [None])
                out.append(self.gen_story(gid) if gid else self.gen_story())
            elif self.faulty and R.random() < self.P.get('blank_id_rate', 0.0):
                out.append(self.gen_story(''))          # schema-shaped, but the id is blank
            else:
                out.append(self.gen_story())
        return out

    def new_items(self, n, entry):
        R = self.R
        out = []
        have = set(entry[1]) if entry else set()
        for _ in range(n):
            iid = self.pick_item_id_for_new()
            tries = 0
            while iid in have and tries < 20:
                iid = self.new_iid()
                tries += 1
            have.add(iid)
            out.append(self.gen_item(iid))
        return out

    def fill_storysend(self, op, sref, entry):
        R = self.R
        keep_items = entry[1] if entry and R.random() < 0.5 else None
        st = self.gen_story(sref, item_ids=keep_items)
        op['payload'] = [st]
        op.pop('roid_pos', None)
        ch = st[4]
        body_idx = [i for i, c in enumerate(ch) if c[0] in ('p', 'item')]
        lo = min(body_idx) if body_idx else R.randint(1, len(ch))
        hi = max(body_idx) + 1 if body_idx else lo
        i = R.randint(1, lo) if R.random() < 0.4 else lo
        j = R.randint(hi, len(ch)) if R.random() < 0.4 else hi
        op['body_span'] = [i, j]
        if R.random() < 0.12:
            # storyBody first: the story's head (storyID, slug, metadata) follows the body
            head = [c for c in ch[:lo]]
            st[4] = ch[lo:hi] + head + ch[hi:]
            op['body_span'] = [0, hi - lo]
            op['roid_pos'] = R.randint(1, 1 + len(head))
        elif R.random() < 0.2:
            op['roid_pos'] = R.randint(0, len(ch) - (j - i) + 1)
        if entry:
            entry[1] = _iids(st)

    # ---- one op ----------------------------------------------------------
    def gen_op(self):
        R = self.R
        types = sorted(t for t in self.weights if self.weights[t] > 0)
        t = R.choices(types, [self.weights[x] for x in types])[0]
        op = {'type': t, 'ro_id': self.ro_id, 'shapes': {}}
        level = OP_TABLE[t][3]
        sh = op['shapes']
        sids = self.sids()

        def node_sid(st):
            return next(x[2] for x in st[4] if x[0] == 'storyID')

        def node_iid(it):
            return next(x[2] for x in it[4] if x[0] == 'itemID')

        if level == 'item':
            sref, sshape = self.ref_story(allow_blank=True, allow_missing=True)
            op['story'] = sref
            sh['story'] = sshape
            entry = self.story_entry(sref) if isinstance(sref, str) else None
            pool = list(entry[1]) if entry else []

        if t == 'StoryAppend':
            op['payload'] = self.new_stories(R.randint(1, 3), dup_ok=False)
            self.truth.extend([[node_sid(s), _iids(s)] for s in op['payload']])
        elif t in ('StoryInsert', 'EAStoryInsert'):
            if t == 'EAStoryInsert' and R.random() < 0.3:
                op['tform'] = R.choice(['blank', 'absent'])
                op['target'] = None
                sh['target'] = 'end'
            else:
                allow_blank = True
                op['target'], sh['target'] = self.ref_story(allow_blank=allow_blank, allow_missing=(t == 'StoryInsert'))
                op['tform'] = 'blank' if op['target'] is None else 'id'
            op['payload'] = self.new_stories(R.randint(1, 4), dup_ok=True)
            new = [[node_sid(s), _iids(s)] for s in op['payload'] if node_sid(s) not in sids]
            sh['dups'] = len(op['payload']) - len(new)
            tgt = op['target']
            if isinstance(tgt, str) and tgt in sids:
                i = sids.index(tgt)
                self.truth[i:i] = new
            elif tgt is None and t == 'EAStoryInsert':
                self.truth.extend(new)
        elif t in ('StoryReplace', 'EAStoryReplace'):
            op['target'], sh['target'] = self.ref_story(allow_missing=(t == 'StoryReplace'))
            op['tform'] = 'blank' if op['target'] is None else 'id'
            n = R.choice([1, 1, 1, 2, 3])
            pay = []
            for k in range(n):
                if k == 0 and isinstance(op['target'], str) and R.random() < 0.6:
                    pay.append(self.gen_story(op['target']))
                else:
                    pay.append(self.gen_story())
            if not isinstance(op['target'], str) and sids and R.random() < 0.6:
                pay[0] = self.gen_story(R.choice(sids))
            R.shuffle(pay)
            op['payload'] = pay
            tgt = op['target']
            if isinstance(tgt, str) and tgt in sids:
                i = sids.index(tgt)
                if node_sid(pay[0]) != tgt and all(node_sid(p) != tgt for p in pay):
                    self.graveyard_s.append(tgt)
                self.truth[i:i + 1] = [[node_sid(s), _iids(s)] for s in pay]
        elif t == 'StoryMove':
            srcs, target, tshape, cls = self.draw_move(sids, 1)
            sh['pos'] = cls
            if target is None:
                op['target'] = R.choice([None, False])     # blank or absent second storyID = end
                sh['target'] = 'end'
            else:
                op['target'] = target
                sh['target'] = 'existing'
            srcs, sshapes = self.corrupt_refs(srcs or ['nosuch-1'], 's')
            sh['sources'] = sshapes
            if self.faulty and R.random() < 0.1 and target is not None:
                op['target'], sh['target'] = self.ref_story(allow_blank=False)
            op['sources'] = srcs[:1]
            if isinstance(op['sources'][0], str):
                ids = _seq_move(sids, op['sources'], op['target'] if isinstance(op['target'], str) else None)
                self._reorder(ids)
        elif t == 'EAStoryMove':
            srcs, target, tshape, cls = self.draw_move(sids, 4)
            sh['pos'] = cls
            if target is None:
                op['tform'] = R.choice(['blank', 'absent'])
                op['target'] = None
                sh['target'] = 'end'
            else:
                op['tform'] = 'id'
                op['target'] = target
                sh['target'] = 'existing'
                if self.faulty and R.random() < 0.1:
                    op['target'], sh['target'] = self.ref_story(allow_blank=False)
            srcs, sshapes = self.corrupt_refs(srcs, 's')
            if not srcs:
                srcs, sshapes = ['nosuch-1'], ['unknown']
            op['sources'], sh['sources'] = srcs, sshapes
            if all(isinstance(s, str) for s in srcs):
                self._reorder(_seq_move(sids, srcs, op['target'] if isinstance(op['target'], str) else None))
        elif t in ('StoryDelete', 'EAStoryDelete'):
            n = min(len(sids), R.choice([1, 1, 2, 3, 4]))
            srcs = R.sample(sids, n) if n else []
            srcs, sshapes = self.corrupt_refs(srcs, 's')
            if not srcs:
                srcs, sshapes = ['nosuch-1'], ['unknown']
            op['sources'], sh['sources'] = srcs, sshapes
            if t == 'EAStoryDelete' and R.random() < 0.3:
                # deletes do not happen relative to another story: an element_target, if sent, means nothing
                if R.random() < 0.5 or not sids:
                    op['tform'] = 'blank'
                else:
                    op['tform'] = 'id'
                    op['target'] = R.choice(sids)
                    sh['target'] = 'ignored'
            for s in srcs:
                if s in self.sids():
                    self.truth = [e for e in self.truth if e[0] != s]
                    self.graveyard_s.append(s)
        elif t == 'EAStorySwap':
            op['tform'] = R.choice(['absent', 'blank'])
            if len(sids) >= 2:
                a, b = R.sample(sids, 2)
                if R.random() < 0.5:
                    ia, ib = sorted((sids.index(a), sids.index(b)))
                    a, b = (sids[ib], sids[ia]) if R.random() < 0.5 else (sids[ia], sids[ib])
                    if R.random() < 0.4 and ia + 1 < len(sids):
                        a, b = (sids[ia], sids[ia + 1]) if R.random() < 0.5 else (sids[ia + 1], sids[ia])
            else:
                a, b = (sids + ['nosuch-1', 'nosuch-2'])[:2]
            srcs, sshapes = self.corrupt_refs([a, b], 's')
            if self.faulty and R.random() < 0.06:
                srcs[1] = srcs[0]
                sshapes[1] = 'repeat'
            op['sources'], sh['sources'] = srcs, sshapes
            ia = sids.index(srcs[0]) if srcs[0] in sids else None
            ib = sids.index(srcs[1]) if srcs[1] in sids else None
            sh['pos'] = 'na' if ia is None or ib is None else ('fwd' if ia < ib else ('rev' if ia > ib else 'same')) + ('-adj' if abs(ia - ib) == 1 else '')
            if ia is not None and ib is not None:
                self.truth[ia], self.truth[ib] = self.truth[ib], self.truth[ia]
        elif t == 'StorySend':
            k = R.random()
            sref, sshape = self.ref_story(allow_blank=False)
            if sshape in ('blank', 'missing'):
                sref, sshape = 'nosuch-1', 'unknown'
            sh['target'] = sshape
            sh['pos'] = 'k=%s' % (sids.index(sref) + 1 if sref in sids else '-')
            entry = self.story_entry(sref)
            if R.random() < 0.08:
                op['resend'] = True          # the NCS sends the story again, edited, under the same message id
            self.fill_storysend(op, sref, entry)
        elif t in ('ItemInsert', 'EAItemInsert'):
            if R.random() < 0.3:
                op['target'], sh['target'] = None, 'end'
            else:
                op['target'], sh['target'] = self.ref_item(entry, allow_missing=(t == 'ItemInsert'))
            op['payload'] = self.new_items(R.randint(1, 4), entry)
            if entry is not None:
                new = [node_iid(i) for i in op['payload']]
                if op['target'] is None:
                    entry[1].extend(new)
                elif op['target'] in entry[1]:
                    i = entry[1].index(op['target'])
                    entry[1][i:i] = new
        elif t in ('ItemReplace', 'EAItemReplace'):
            op['target'], sh['target'] = self.ref_item(entry, allow_missing=(t == 'ItemReplace'))
            n = R.choice([1, 1, 2, 3])
            pay = self.new_items(n, entry)
            if isinstance(op['target'], str) and R.random() < 0.5:
                pay[R.randrange(n)] = self.gen_item(op['target'])
            elif not isinstance(op['target'], str) and entry and entry[1] and R.random() < 0.6:
                # no usable reference, but the replacement re-uses an id that lives in the story
                pay[R.randrange(n)] = self.gen_item(R.choice(entry[1]))
            op['payload'] = pay
            if entry is not None and op['target'] in entry[1]:
                i = entry[1].index(op['target'])
                entry[1][i:i + 1] = [node_iid(x) for x in pay]
        elif t in ('ItemMoveMultiple', 'EAItemMove'):
            srcs, target, tshape, cls = self.draw_move(pool, 4)
            sh['pos'] = cls
            if target is None:
                op['target'], sh['target'] = None, 'end'
            else:
                op['target'], sh['target'] = target, 'existing'
                if self.faulty and R.random() < 0.1:
                    op['target'], sh['target'] = self.ref_item(entry, allow_blank=False)
            srcs, sshapes = self.corrupt_refs(srcs, 'i', entry)
            if not srcs and (t == 'EAItemMove' or R.random() < 0.7):
                srcs, sshapes = ['noitem-1'], ['unknown']
            op['sources'], sh['sources'] = srcs, sshapes
            if entry is not None and all(isinstance(s, str) for s in srcs):
                entry[1] = _seq_move(entry[1], srcs, op['target'] if isinstance(op['target'], str) else None)
        elif t in ('ItemDelete', 'EAItemDelete'):
            n = min(len(pool), R.choice([1, 1, 2, 3, 4]))
            srcs = R.sample(pool, n) if n else []
            srcs, sshapes = self.corrupt_refs(srcs, 'i', entry)
            if not srcs:
                srcs, sshapes = ['noitem-1'], ['unknown']
            op['sources'], sh['sources'] = srcs, sshapes
            if entry is not None:
                for s in srcs:
                    if s in entry[1]:
                        entry[1].remove(s)
                        self.graveyard_i.append(s)
        elif t == 'EAItemSwap':
            if len(pool) >= 2:
                a, b = R.sample(pool, 2)
                if R.random() < 0.4:
                    ia = R.randrange(len(pool) - 1)
                    a, b = (pool[ia], pool[ia + 1]) if R.random() < 0.5 else (pool[ia + 1], pool[ia])
            else:
                a, b = (pool + ['noitem-1', 'noitem-2'])[:2]
            srcs, sshapes = self.corrupt_refs([a, b], 'i', entry)
            if self.faulty and R.random() < 0.06:
                srcs[1] = srcs[0]
                sshapes[1] = 'repeat'
            op['sources'], sh['sources'] = srcs, sshapes
            ia = pool.index(srcs[0]) if srcs[0] in pool else None
            ib = pool.index(srcs[1]) if srcs[1] in pool else None
            sh['pos'] = 'na' if ia is None or ib is None else ('fwd' if ia < ib else ('rev' if ia > ib else 'same')) + ('-adj' if abs(ia - ib) == 1 else '')
            if entry is not None and ia is not None and ib is not None:
                entry[1][ia], entry[1][ib] = entry[1][ib], entry[1][ia]
        elif t == 'MetadataReplace':
            pay = [T('roSlug', gen_text(R, self.rich))]
            for tg in R.sample(['roChannel', 'roEdStart', 'roEdDur', 'roTrigger', 'macroRoIn', 'roNew1', 'roNew2'], R.randint(0, 4)):
                if tg == 'roEdStart':
                    pay.append(T(tg, self.gen_stamp() if R.random() < 0.8 else ''))
                else:
                    pay.append(self.gen_meta(tg))
            for sch in R.sample(['http://ro/a', 'http://ro/b', 'http://ro/c', 'http://ro/d', None], R.choice([0, 0, 1, 1, 2])):
                pay.append(self.gen_extmeta(sch))
            if R.random() < 0.3:
                R.shuffle(pay)
            op['payload'] = pay
        elif t == 'ROReplace':
            content = self.gen_ro_content(R.randint(0, self.P.get('max_stories', 6)))
            op['payload'] = content
            for s in self.sids():
                self.graveyard_s.append(s)
            self.truth = ids_of_content(content)
        elif t == 'ReadyToAir':
            op['air'] = R.choice(['READY', 'NOT READY'])
        # ---- non-schema-shaped relatives (faulty runs): only C05 / C07 judge them ----------------
        if self.faulty and R.random() < 0.05:
            m = {'StorySend': [('drop', 'storyBody'), ('dup', 'storyBody')],
                 'StoryMove': [('drop_all', 'storyID')],
                 'ItemMoveMultiple': [('drop_all', 'itemID')],
                 'StoryReplace': [('drop_all', 'story')],
                 'ItemReplace': [('drop_all', 'item')],
                 'StoryDelete': [('drop_all', 'storyID')],
                 'MetadataReplace': [('dup', 'roSlug')],
                 'RODelete': [('drop', 'roID')],
                 'ReadyToAir': [('drop', 'roID')]}.get(t)
            if m:
                how, tag = R.choice(m)
                op['mangle'] = {'how': how, 'tag': tag}
                op['malformed'] = True
            elif t in ('EAStorySwap', 'EAItemSwap') and isinstance(op.get('sources'), list):
                op['sources'] = (op['sources'] + [op['sources'][0]])[:R.choice([1, 3])]
                sh['sources'] = (sh['sources'] + ['repeat'])[:len(op['sources'])]
                op['malformed'] = True
        elif t == 'RODelete':
            if R.random() < 0.25:
                op['extra'] = [self.gen_meta('roSlug')] + ([self.gen_other(1)] if R.random() < 0.4 else [])
        self.truth = [e for e in self.truth if e[0] != '']      # a blank id cannot be referred to
        return op

    def _reorder(self, ids):
        by = {e[0]: e for e in self.truth}
        if sorted(ids) == sorted(by) and len(by) == len(self.truth):
            self.truth = [by[i] for i in ids]


def _iids(story):
    return [next((y[2] for y in x[4] if y[0] == 'itemID'), None) for x in story[4] if x[0] == 'item']
