"""Deterministic simulation of the MOS pipeline around bbc/mosromgr (see /verif/DESIGN.md)."""
