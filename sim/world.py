"""The simulated store: file system and S3 with fault injection (DESIGN.md 2.2, 5).

SimFS keeps the stored objects as real files in a private scratch directory
(under /dev/shm when available) that is removed when the run ends, and takes
the ``open`` seam (``builtins.open`` / ``io.open``, which is what
``xml.etree.ElementTree.parse`` and ``mosromgr.cli`` resolve ``open`` to) to
inject I/O faults.  Code that reads the file in any other way still sees the
right bytes; a fault that was configured but never reached is reported as
*not fired* and the oracle then expects the fault-free behaviour.

SimS3 serves the same bytes behind the boto3 calls mosromgr makes.
"""
import builtins
import errno
import io
import os
import shutil
import tempfile
from collections import Counter

_REAL_OPEN = builtins.open
_SCRATCH_BASE = '/dev/shm' if os.path.isdir('/dev/shm') and os.access('/dev/shm', os.W_OK) else None


class InjectedOSError(OSError):
    """An I/O error the simulator injected (a subclass so that the oracle can tell)."""


class _FaultyReader:
    """binary reader with short reads and / or an EIO after k bytes"""

    def __init__(self, fs, path, real, short=None, eio_after=None):
        self._fs, self._path, self._f = fs, path, real
        self._short, self._eio, self._n = short, eio_after, 0
        self.name = path
        self.mode = 'rb'

    def read(self, n=-1):
        if n is None or n < 0:
            # read-to-EOF is never short on a real file object: deliver everything, chunk by chunk
            chunks = []
            while True:
                c = self.read(1 << 16)
                if not c:
                    return b''.join(chunks)
                chunks.append(c)
        if self._eio is not None and self._n >= self._eio:
            self._fs.fired['eio'] += 1
            raise InjectedOSError(errno.EIO, 'Input/output error (injected)', self._path)
        if self._short:
            n = min(n, self._short)
            self._fs.fired['short'] += 1
        if self._eio is not None:
            room = self._eio - self._n
            n = min(n, room)
            if n == 0:
                self._fs.fired['eio'] += 1
                raise InjectedOSError(errno.EIO, 'Input/output error (injected)', self._path)
        data = self._f.read(n)
        self._n += len(data)
        return data

    def readable(self):
        return True

    def close(self):
        self._f.close()

    def __enter__(self):
        return self

    def __exit__(self, *a):
        self.close()

    def __iter__(self):
        return iter(self.read().splitlines(True))


class _FaultyWriter:
    """text/binary writer that runs out of space after k characters"""

    def __init__(self, fs, path, real, after):
        self._fs, self._path, self._f, self._room = fs, path, real, after

    def write(self, data):
        if len(data) > self._room:
            self._f.write(data[:self._room])
            self._room = 0
            self._fs.fired['enospc'] += 1
            raise InjectedOSError(errno.ENOSPC, 'No space left on device (injected)', self._path)
        self._room -= len(data)
        return self._f.write(data)

    def close(self):
        self._f.close()

    def flush(self):
        self._f.flush()

    def __enter__(self):
        return self

    def __exit__(self, *a):
        self.close()


class SimFS:
    def __init__(self):
        self.root = tempfile.mkdtemp(prefix='mosromgr-verif-', dir=_SCRATCH_BASE)
        self.faults = {}          # absolute path -> {'kind': ..., ...}
        self.fired = Counter()
        self.opens = Counter()
        self._installed = False

    # ---- content ---------------------------------------------------------
    def path(self, key):
        return os.path.join(self.root, key)

    def write(self, key, data):
        p = self.path(key)
        with _REAL_OPEN(p, 'wb') as f:
            f.write(data)
        return p

    def read(self, key):
        with _REAL_OPEN(self.path(key), 'rb') as f:
            return f.read()

    def mkdir(self, key):
        os.makedirs(self.path(key), exist_ok=True)
        return self.path(key)

    def set_fault(self, path, fault):
        if fault:
            self.faults[path] = fault
        else:
            self.faults.pop(path, None)

    # ---- the seam --------------------------------------------------------
    def _open(self, file, mode='r', *args, **kw):
        if self.faults:
            try:
                p = os.fspath(file)
            except TypeError:
                p = None
            f = self.faults.get(p) if isinstance(p, str) else None
            if f is not None:
                kind = f['kind']
                self.opens[kind] += 1
                if kind == 'eacces':
                    self.fired['eacces'] += 1
                    raise InjectedOSError(errno.EACCES, 'Permission denied (injected)', p)
                if 'r' in mode and '+' not in mode and kind in ('short', 'eio'):
                    real = _REAL_OPEN(file, 'rb')
                    fr = _FaultyReader(self, p, real, short=f.get('short'), eio_after=f.get('after'))
                    if 'b' in mode:
                        return fr
                    return io.TextIOWrapper(io.BufferedReader(_Raw(fr)), encoding=kw.get('encoding'))
                if kind == 'enospc' and ('w' in mode or 'a' in mode):
                    real = _REAL_OPEN(file, mode, *args, **kw)
                    return _FaultyWriter(self, p, real, f.get('after', 0))
        return _REAL_OPEN(file, mode, *args, **kw)

    def install(self):
        builtins.open = self._open
        io.open = self._open
        self._installed = True

    def uninstall(self):
        if self._installed:
            builtins.open = _REAL_OPEN
            io.open = _REAL_OPEN
            self._installed = False

    def destroy(self):
        self.uninstall()
        shutil.rmtree(self.root, ignore_errors=True)


class _Raw(io.RawIOBase):
    def __init__(self, fr):
        self._fr = fr

    def readable(self):
        return True

    def readinto(self, b):
        data = self._fr.read(len(b))
        b[:len(data)] = data
        return len(data)


# ---------------------------------------------------------------------------
# S3
# ---------------------------------------------------------------------------

def _client_error(code, op):
    from botocore.exceptions import ClientError
    return ClientError({'Error': {'Code': code, 'Message': code + ' (injected)'}}, op)


class _Body:
    def __init__(self, data):
        self._b = io.BytesIO(data)

    def read(self, n=-1):
        return self._b.read(n)

    def close(self):
        pass


class SimS3:
    """Fake of the boto3 client/resource calls used by mosromgr.utils.s3."""

    def __init__(self, page_size=1000):
        self.buckets = {}        # bucket -> {key: bytes}
        self.page_size = page_size
        self.get_faults = {}     # (bucket, key) -> error code
        self.list_fault_page = None
        self.empty_page_at = None
        self.fired = Counter()
        self.calls = Counter()

    def put(self, bucket, key, data):
        self.buckets.setdefault(bucket, {})[key] = data

    # client ---------------------------------------------------------------
    def get_paginator(self, name):
        s3 = self
        if name not in ('list_objects', 'list_objects_v2'):
            raise ValueError('SimS3: paginator %r not simulated' % name)

        class _P:
            def paginate(self, Bucket, Prefix='', **kw):
                s3.calls['paginate'] += 1
                keys = sorted((k for k in s3.buckets.get(Bucket, {}) if k.startswith(Prefix or '')),
                              key=lambda k: k.encode('utf-8'))
                if not keys:
                    s3.calls['page'] += 1
                    yield {'IsTruncated': False, 'Name': Bucket, 'Prefix': Prefix}
                    return
                n = s3.page_size
                for pi, i in enumerate(range(0, len(keys), n)):
                    if s3.empty_page_at is not None and pi == s3.empty_page_at:
                        # S3 may return a page with no keys and still be truncated
                        s3.fired['empty_page'] += 1
                        yield {'IsTruncated': True, 'Name': Bucket, 'Prefix': Prefix, 'Contents': [], 'KeyCount': 0}
                    if s3.list_fault_page is not None and pi == s3.list_fault_page:
                        s3.fired['list_error'] += 1
                        raise _client_error('InternalError', 'ListObjects')
                    s3.calls['page'] += 1
                    yield {'IsTruncated': i + n < len(keys), 'Name': Bucket, 'Prefix': Prefix,
                           'Contents': [{'Key': k, 'Size': len(s3.buckets[Bucket][k])} for k in keys[i:i + n]],
                           'KeyCount': len(keys[i:i + n])}
        return _P()

    def get_object(self, Bucket, Key, **kw):
        return self._get(Bucket, Key)

    def _get(self, bucket, key):
        self.calls['get'] += 1
        code = self.get_faults.get((bucket, key))
        if code:
            self.fired['get_error'] += 1
            raise _client_error(code, 'GetObject')
        try:
            data = self.buckets[bucket][key]
        except KeyError:
            self.fired['nosuchkey'] += 1
            raise _client_error('NoSuchKey', 'GetObject')
        return {'Body': _Body(data), 'ContentLength': len(data)}

    # resource -------------------------------------------------------------
    def Object(self, bucket, key):
        s3 = self

        class _O:
            def get(self, **kw):
                return s3._get(bucket, key)
        return _O()

    def install(self):
        import mosromgr.utils.s3 as m
        import boto3
        self._saved = (getattr(m.s3, '_client', None), getattr(m.s3, '_resource', None), boto3.client, boto3.resource)
        try:
            m.s3._client = self
            m.s3._resource = self
        except Exception:
            pass
        boto3.client = lambda *a, **k: self
        boto3.resource = lambda *a, **k: self

    def uninstall(self):
        import mosromgr.utils.s3 as m
        import boto3
        c, r, bc, br = self._saved
        try:
            m.s3._client = c
            m.s3._resource = r
        except Exception:
            pass
        boto3.client, boto3.resource = bc, br
