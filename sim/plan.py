"""Assembly of a trace: NCS op stream -> channel faults -> store/delivery/driver steps.

Everything is drawn from one ``random.Random(seed)`` (inside ``Ncs``); restart
decisions come from the sub-stream ``Random(f"{seed}/restart")`` so that the op
stream of a seed is the same with restarts on and off (DESIGN.md 8, C14).
"""
import random

from .ncs import Ncs, ids_of_content, gen_text
from .ops import OP_TYPES, STORY_OPS, ITEM_OPS, MESSAGE_TAGS, EA_CLASS
from .xmlmodel import T, N


def _w(base, **over):
    w = {t: base for t in OP_TYPES}
    w.update(over)
    return w


_LOW = dict(ROReplace=0.3, RODelete=0.25, ReadyToAir=0.3, MetadataReplace=0.6)

PROFILES = {
    # name: knobs
    'story': dict(weights=_w(0.15, **{t: 1.0 for t in STORY_OPS}, **_LOW), max_stories=8, max_steps=24,
                  meta_placement=['before', 'mixed', 'mixed', 'after'], max_items=3, max_paras=2, cli_mid=0.02, blank_id_rate=0.03),
    'item': dict(weights=_w(0.12, **{t: 1.0 for t in ITEM_OPS}, StorySend=0.4, StoryAppend=0.3, **_LOW),
                 max_stories=5, max_steps=24, max_items=6, max_paras=4, cli_mid=0.02),
    'mixed': dict(weights=_w(1.0, **_LOW), max_stories=7, max_steps=30, max_items=5, max_paras=3, cli_mid=0.02, blank_id_rate=0.03),
    'meta': dict(weights=_w(0.3, MetadataReplace=2.5, ROReplace=0.8, RODelete=0.3, ReadyToAir=0.5), max_stories=5, max_steps=16),
    'end': dict(weights=_w(0.6, RODelete=1.5, ROReplace=0.3), max_stories=5, max_steps=20, force_after_end=True),
    'alias': dict(weights=_w(0.4, StoryAppend=1.5, StoryInsert=1.5, StoryReplace=1.5, EAStoryInsert=1.5, EAStoryReplace=1.5,
                             ItemInsert=2, ItemReplace=2, ItemDelete=2, EAItemInsert=2, EAItemReplace=2, EAItemDelete=2,
                             EAItemSwap=1, ItemMoveMultiple=1, MetadataReplace=1.5, StorySend=1, RODelete=0.2, ROReplace=0.1),
                  max_stories=4, max_steps=24, restart_rate=0.0, double=True, twin=True, twin_lag=[0, 1, 2, 3, 5, 8], edit_inside=True),
    'timing': dict(weights=_w(0.5, StoryInsert=1.5, StoryAppend=1.5, StoryReplace=1.5, StorySend=1.5, StoryMove=1.5,
                              EAStoryMove=1.5, EAStorySwap=1.5, StoryDelete=1.0, MetadataReplace=1.0, **{k: v for k, v in _LOW.items() if k != 'MetadataReplace'}),
                   max_stories=7, max_steps=20, explicit_times=0.4, durations=['all', 'all', 'all', 'mixed', 'none']),
    'script': dict(weights=_w(0.5, StorySend=3.0, StoryInsert=1.2, StoryReplace=1.2, ItemInsert=1, ItemDelete=1, EAItemMove=1, **_LOW),
                   max_stories=6, max_steps=20, max_paras=7),
    'collection': dict(weights=_w(1.0, RODelete=0.5, ROReplace=0.2, ReadyToAir=0.3, MetadataReplace=0.5),
                       max_stories=5, max_steps=16, batch=True, end_rate=0.7, end_replace=0.12),
    'classify': dict(weights=_w(1.0, **_LOW), max_stories=3, max_steps=14, raw_rate=0.45, corrupt_rate=0.25,
                     classify_all=1.0, max_items=2, max_paras=1),
    'cli': dict(weights=_w(1.0, RODelete=0.5, ROReplace=0.2), max_stories=4, max_steps=10, cli=True, end_rate=0.7,
                raw_rate=0.1, corrupt_rate=0.1, max_items=3, max_paras=2),
    'sources': dict(weights=_w(1.0, **_LOW), max_stories=4, max_steps=12, classify_all=0.6, listing=True, batch=True, end_rate=0.6),
}

KNOB_SPACE = {
    'indent': [None, None, 1, 2, 4, 'tab'],
    'decl': [False, True],
    'encoding': ['utf-8', 'utf-8', 'utf-8', 'utf-16', 'utf-16-be', 'iso-8859-1', 'us-ascii'],
    'cdata': [False, False, True],
    'charref': ['raw', 'raw', 'dec', 'hex'],
    'quote': ['"', "'"],
    'empty': ['pair', 'self'],
    'comments': [0, 0, 0, 0, 0, 1, 3, 7],
}


def draw_knobs(R, plain=False):
    if plain:
        return {'indent': R.choice([None, 2])}
    return {k: R.choice(v) for k, v in sorted(KNOB_SPACE.items())}


def draw_env(R):
    env = {}
    if R.random() < 0.3:
        env['ncsID'] = False
    if R.random() < 0.15:
        env['mid_after'] = True
    if R.random() < 0.08:
        env['mid_pad'] = R.choice([[' ', ''], ['', ' '], ['\n    ', '\n  '], ['\t', '\n'], ['  ', '  ']])
    if R.random() < 0.2:
        env['extra'] = R.sample(['mosGroup', 'x-extra', 'heartbeat', 'custom'], R.randint(1, 2))
    return env


# ---------------------------------------------------------------------------
# malformed relatives (C08 / C12 / C19)
# ---------------------------------------------------------------------------

def gen_raw(g, R):
    """A well-formed document that is not one of the schema-shaped messages."""
    k = R.random()
    ro = [T('roID', g.ro_id)]
    if k < 0.25:
        # roElementAction with an unknown operation or an unlisted target/source shape
        opn = R.choice(['REPLACE', 'DELETE', 'INSERT', 'SWAP', 'MOVE', 'COPY', 'replace', '', 'NOP'])
        t_item = R.random() < 0.5
        s_item = R.random() < 0.5
        tch = [T('storyID', 'S1')] + ([T('itemID', 'I1')] if t_item else [])
        sch = [T('itemID', 'I2')] if s_item else ([T('storyID', 'S2')] if R.random() < 0.7 else [g.gen_story()])
        has_t = R.random() < 0.8
        attrs = {'operation': opn} if R.random() < 0.9 else {}
        el = ['roElementAction', attrs, '', '', ro + ([['element_target', {}, '', '', tch]] if has_t else [])
              + [['element_source', {}, '', '', sch]]]
        cls = EA_CLASS.get((attrs.get('operation'), t_item and has_t, s_item))
        return {'type': 'Raw', 'element': el, 'expect_class': cls, 'raw_kind': 'ea-shape'}
    if k < 0.40:
        tag = R.choice(['roList', 'roReq', 'heartbeat', 'mosObj', 'roAck', 'roStoryMoveMultiple', 'roItemMove', 'rocreate', 'RoCreate'])
        return {'type': 'Raw', 'element': [tag, {}, '', '', ro + [T('x', gen_text(R))]], 'expect_class': None, 'raw_kind': 'unknown-top'}
    if k < 0.55:
        # a recognised message element without children / with text only
        tag = R.choice(MESSAGE_TAGS[:-1])
        from .ops import TAG_CLASS
        el = [tag, {}, R.choice(['', '', 'text']), '', []]
        return {'type': 'Raw', 'element': el, 'expect_class': TAG_CLASS[tag], 'raw_kind': 'childless'}
    if k < 0.70:
        # recognised element nested deeper (not a top-level message element)
        tag = R.choice(MESSAGE_TAGS)
        el = ['wrapper', {}, '', '', [[tag, {}, '', '', ro]]]
        return {'type': 'Raw', 'element': el, 'expect_class': None, 'raw_kind': 'nested'}
    if k < 0.85:
        # message element carrying foreign extra content
        tag = R.choice(['roStoryDelete', 'roReadyToAir', 'roDelete', 'roStoryMove', 'roItemDelete'])
        from .ops import TAG_CLASS
        el = [tag, {'x': '1'}, '', '', ro + [T('storyID', 'S1'), g.gen_other(0)]]
        return {'type': 'Raw', 'element': el, 'expect_class': TAG_CLASS[tag], 'raw_kind': 'extra-content'}
    el = ['html', {}, '', '', [N('body', T('p', gen_text(R)))]]
    return {'type': 'Raw', 'element': el, 'expect_class': None, 'raw_kind': 'non-mos'}


def draw_corrupt(R, approx_len):
    k = R.random()
    if k < 0.08:
        return {'kind': 'prepend', 'bytes': R.choice([' ', '\n', ' \n\t', '\ufeff '])}
    if k < 0.45:
        return {'kind': 'truncate', 'at': R.randint(0, max(1, approx_len))}
    if k < 0.75:
        return {'kind': 'flip', 'at': R.randint(0, max(1, approx_len)), 'mask': R.choice([0x20, 0x01, 0x80, 0x1c])}
    if k < 0.85:
        return {'kind': 'empty'}
    return {'kind': 'garbage', 'bytes': R.choice(['not xml at all', '<a><b></a>', '\x00\x01\x02', '<?xml version="1.0"?>', '<mos>', '{"json": 1}'])}


# ---------------------------------------------------------------------------

KOFN_TYPES = ['StoryDelete', 'EAStoryDelete', 'EAStoryMove', 'ItemDelete', 'EAItemDelete', 'ItemMoveMultiple', 'EAItemMove',
              'EAStorySwap', 'EAItemSwap']
KOFN_SHAPES = ['unknown', 'blank', 'repeat', 'target', 'stale-other-story']
KOFN_COMBOS = [(t, n, k, sh) for t in KOFN_TYPES for n in (1, 2, 3, 4) for k in range(1, n + 1) for sh in KOFN_SHAPES
               if not ('Swap' in t and n != 2) and not (sh == 'target' and ('Delete' in t or 'Swap' in t))]


def generate_kofn(seed):
    """stratified fault positions: message type x list length n x position k of the bad reference x its shape;
    everything else (running order, which ids, rendering) is drawn from the seed"""
    from .ncs import Ncs
    t, n, k, shape = KOFN_COMBOS[seed % len(KOFN_COMBOS)]
    P = dict(PROFILES['mixed'], max_items=6)
    g = Ncs(seed, P, True)
    R = g.R
    content = [T('roID', g.ro_id), T('roSlug', 'kofn')]
    stories = [g.gen_story(n_items=R.randint(5, 6)) for _ in range(R.randint(5, 7))]
    content += stories
    if R.random() < 0.5:
        content.append(g.gen_meta('roTrailer'))
    truth = ids_of_content(content)
    mid = R.choice([5, 98, 9990])
    steps = [{'k': 'create', 'op': {'type': 'ROCreate', 'mid': mid, 'ro_id': g.ro_id, 'payload': content, 'env': {}}, 'knobs': {}, 'path': 'str'}]
    level_item = 'Item' in t
    si = R.randrange(len(truth))
    pool = list(truth[si][1]) if level_item else [s for s, _ in truth]
    other_items = [i for j, e in enumerate(truth) if j != si for i in e[1] if i not in pool]
    target = R.choice(pool)
    cand = [x for x in pool if x != target]
    srcs = R.sample(cand, min(n, len(cand)))
    while len(srcs) < n:
        srcs.append('extra-%d' % len(srcs))
    shapes = ['existing'] * n
    bad = {'unknown': 'no-such-id', 'blank': None, 'repeat': srcs[0] if k > 1 else (srcs[1] if n > 1 else 'no-such-id'),
           'target': target, 'stale-other-story': (R.choice(other_items) if level_item and other_items else 'no-such-id')}[shape]
    srcs[k - 1] = bad
    shapes[k - 1] = shape
    op = {'type': t, 'ro_id': g.ro_id, 'mid': mid + 7, 'env': {}, 'sources': srcs,
          'shapes': {'sources': shapes, 'pos': 'k=%d/n=%d' % (k, n), 'target': 'existing'}}
    if level_item:
        op['story'] = truth[si][0]
        op['shapes']['story'] = 'existing'
    if 'Move' in t:
        op['target'] = target if R.random() < 0.7 else None
        op['tform'] = 'id' if op['target'] is not None else R.choice(['blank', 'absent'])
        if op['target'] is None:
            op['shapes']['target'] = 'end'
    if t in ('EAStorySwap',):
        op['tform'] = R.choice(['absent', 'blank'])
    steps.append({'k': 'msg', 'op': op, 'knobs': draw_knobs(R, R.random() < 0.5), 'path': R.choice(['str', 'bytes', 'file']), 'via': 'MosFile'})
    # a second, fully resolvable message shows that the running order is still usable afterwards
    g.truth = truth
    g.faulty = False
    g.shapes = dict(g.SHAPES_CLEAN)
    op2 = g.gen_op()
    op2['mid'] = mid + 9
    op2['env'] = {}
    steps.append({'k': 'msg', 'op': op2, 'knobs': {}, 'path': 'str', 'via': 'MosFile'})
    return {'version': 1, 'seed': seed, 'profile': 'kofn', 'config': {'profile': 'kofn', 'faulty': True, 'page_size': 3,
            'double': False, 'twin': False, 'prefix': 'ro/'}, 'steps': steps, 'dropped': []}


def generate_trunc(seed):
    """one stored document truncated at EVERY byte offset (and with every byte flipped at a stride): classification only"""
    from .ncs import Ncs
    from .ops import document
    from .render import render_bytes
    P = dict(PROFILES['classify'], max_items=2, max_paras=1, max_stories=2)
    g = Ncs(seed, P, False)
    R = g.R
    content = g.gen_ro_content(R.randint(0, 2))
    g.truth = ids_of_content(content)
    mid = R.choice([5, 98, 9990])
    steps = [{'k': 'create', 'op': {'type': 'ROCreate', 'mid': mid, 'ro_id': g.ro_id, 'payload': content, 'env': {}}, 'knobs': {}, 'path': 'str'}]
    op = g.gen_op() if R.random() < 0.8 else gen_raw(g, R)
    op['ro_id'] = g.ro_id
    op['mid'] = mid + 3
    op['env'] = draw_env(R)
    knobs = draw_knobs(R)
    L = len(render_bytes(document(op), knobs))
    path = R.choice(['bytes', 'file', 's3'])
    for at in range(0, L):
        steps.append({'k': 'msg', 'op': op, 'knobs': knobs, 'path': path, 'via': 'MosFile', 'merge': False,
                      'corrupt': {'kind': 'truncate', 'at': at}, 'key': 't%d.mos.xml' % at})
    for at in range(seed % 7, L, 7):
        steps.append({'k': 'msg', 'op': op, 'knobs': knobs, 'path': path, 'via': 'MosFile', 'merge': False,
                      'corrupt': {'kind': 'flip', 'at': at, 'mask': R.choice([0x01, 0x20, 0x80, 0x1c])}, 'key': 'f%d.mos.xml' % at})
    return {'version': 1, 'seed': seed, 'profile': 'trunc', 'config': {'profile': 'trunc', 'faulty': True, 'page_size': 3,
            'double': False, 'twin': False, 'prefix': 'ro/'}, 'steps': steps, 'dropped': []}


def generate_huge(seed):
    """a running order with more than 256 children (CPython caches small ints, list indexes beyond that are
    fresh objects) and a few story-level operations around the far end, including self-referential ones"""
    from .ncs import Ncs
    P = dict(PROFILES['story'])
    g = Ncs(seed, P, True)
    R = g.R
    n = R.randint(262, 300)
    content = [T('roID', g.ro_id), T('roSlug', 'huge')]
    ids = ['H%d' % i for i in range(n)]
    for sid in ids:
        ch = [T('storyID', sid)]
        if R.random() < 0.5:
            ch.append(N('mosExternalMetadata', T('mosSchema', 'http://t'), N('mosPayload', T('StoryDuration', '%d' % R.randint(0, 9)))))
        if R.random() < 0.2:
            ch.append(N('item', T('itemID', 'i' + sid)))
        content.append(N('story', *ch))
    mid = 7
    steps = [{'k': 'create', 'op': {'type': 'ROCreate', 'mid': mid, 'ro_id': g.ro_id, 'payload': content, 'env': {}}, 'knobs': {}, 'path': 'str'}]
    far = lambda: ids[R.randint(min(257, len(ids) - 2), len(ids) - 1)]
    for k in range(R.randint(2, 5)):
        kind = R.choice(['self-move', 'far-move', 'self-swap', 'far-swap', 'repeat-move', 'far-delete', 'far-send'])
        a, b = far(), far()
        mid += 3
        op = {'ro_id': g.ro_id, 'mid': mid, 'env': {}, 'shapes': {'pos': kind, 'target': 'existing', 'sources': ['existing']}}
        if kind == 'self-move':
            op.update(type='StoryMove', sources=[a], target=a)
        elif kind == 'far-move':
            op.update(type=R.choice(['StoryMove', 'EAStoryMove']), sources=[a], target=b, tform='id')
        elif kind == 'self-swap':
            op.update(type='EAStorySwap', sources=[a, a], tform='absent')
            op['shapes']['sources'] = ['existing', 'repeat']
        elif kind == 'far-swap':
            op.update(type='EAStorySwap', sources=[a, b], tform='absent')
            op['shapes']['sources'] = ['existing', 'existing']
        elif kind == 'repeat-move':
            op.update(type='EAStoryMove', sources=[a, b, a], target=ids[R.randint(0, len(ids) - 1)], tform='id')
            op['shapes']['sources'] = ['existing', 'existing', 'repeat']
        elif kind == 'far-delete':
            op.update(type=R.choice(['StoryDelete', 'EAStoryDelete']), sources=[a, b])
            op['shapes']['sources'] = ['existing', 'existing']
            ids = [x for x in ids if x not in (a, b)]
        else:
            st = N('story', T('storyID', a), T('p', 'resent'))
            op.update(type='StorySend', payload=[st], body_span=[1, 2])
        steps.append({'k': 'msg', 'op': op, 'knobs': {}, 'path': 'str', 'via': 'MosFile'})
    return {'version': 1, 'seed': seed, 'profile': 'huge', 'config': {'profile': 'huge', 'faulty': True, 'page_size': 3,
            'double': False, 'twin': False, 'prefix': 'ro/'}, 'steps': steps, 'dropped': []}


def generate_bigbatch(seed):
    """a collection of a few hundred small messages whose key order differs from their id order"""
    from .ncs import Ncs
    P = dict(PROFILES['collection'], max_items=1, max_paras=0, others=False)
    g = Ncs(seed, P, False)
    R = g.R
    content = [T('roID', g.ro_id), T('roSlug', 'big')] + [g.gen_story(n_items=0) for _ in range(2)]
    g.truth = ids_of_content(content)
    mid = R.choice([1, 95, 9990])
    steps = [{'k': 'create', 'op': {'type': 'ROCreate', 'mid': mid, 'ro_id': g.ro_id, 'payload': content, 'env': {}},
              'knobs': {}, 'path': 'str', 'key': 'k%05d.mos.xml' % R.randint(0, 99999)}]
    n = R.randint(203, 260)
    for i in range(n):
        mid += R.choice([1, 1, 2, 7, 90])
        if i == n - 1:
            op = {'type': 'RODelete', 'ro_id': g.ro_id, 'shapes': {}}
        elif R.random() < 0.1:
            saved = g.weights
            g.weights = {'StoryAppend': 1.0, 'StoryDelete': 0.5, 'EAStoryMove': 0.5}
            op = g.gen_op()
            g.weights = saved
        else:
            op = {'type': 'ReadyToAir', 'ro_id': g.ro_id, 'shapes': {}, 'air': 'READY'}
        op.update(mid=mid, env={})
        steps.append({'k': 'msg', 'op': op, 'knobs': {}, 'path': 'bytes', 'merge': False,
                      'key': 'k%05d-%d.mos.xml' % (R.randint(0, 99999), i)})
    sel = list(range(len(steps)))
    order = list(sel)
    R.shuffle(order)
    perms = [list(range(len(sel))), list(reversed(range(len(sel))))]
    p2 = list(range(len(sel)))
    R.shuffle(p2)
    perms.append(p2)
    steps.append({'k': 'batch', 'select': order, 'kind': 'plain', 'ctor': R.choice(['s3', 's3', 'files', 'strings']),
                  'allow_incomplete': R.random() < 0.5, 'strict': R.random() < 0.5, 'perms': perms, 'cross': True,
                  'page_size': R.choice([7, 100, 1000]), 'noise_keys': False, 'slots': False})
    return {'version': 1, 'seed': seed, 'profile': 'bigbatch', 'config': {'profile': 'bigbatch', 'faulty': False, 'page_size': 1000,
            'double': False, 'twin': False, 'prefix': 'ro/'}, 'steps': steps, 'dropped': []}


def generate(seed, profile_name, faulty=None):
    if profile_name == 'bigbatch':
        return generate_bigbatch(seed)
    if profile_name == 'huge':
        return generate_huge(seed)
    if profile_name == 'kofn':
        return generate_kofn(seed)
    if profile_name == 'trunc':
        return generate_trunc(seed)
    P = dict(PROFILES[profile_name])
    if faulty is None:
        faulty = bool(seed & 1)
    g = Ncs(seed, P, faulty)
    R = g.R
    RR = random.Random('%d/restart' % seed)
    cfg = {'profile': profile_name, 'faulty': faulty, 'page_size': R.randint(1, 7), 'double': bool(P.get('double')), 'twin': bool(P.get('twin')),
           'prefix': R.choice(['ro/', '', 'a/b/', 'ro'])}
    # the host's logging configuration (the library logs what it warns about): silenced, everything, errors only
    cfg['logging'] = random.Random('%d/logging' % seed).choice(['off', 'off', 'off', 'debug', 'debug', 'error'])
    steps = []
    mid = R.choice([1, 7, 8, 95, 98, 996, 9990, 99990, 1234567, 1234567, 2147483000, 4294960000])

    def next_mid():
        nonlocal mid
        mid += R.choice([1, 1, 1, 2, 3, 5, 13, 90, 900]) if R.random() > 0.02 else R.choice([10 ** 9, 2 ** 31, 3 * 10 ** 9])
        return mid

    # ---- the roCreate -------------------------------------------------------
    content = g.gen_ro_content(R.randint(0, P.get('max_stories', 6)))
    g.truth = ids_of_content(content)
    create = {'type': 'ROCreate', 'mid': mid, 'ro_id': g.ro_id, 'payload': content, 'env': draw_env(R)}
    steps.append({'k': 'create', 'op': create, 'knobs': draw_knobs(R), 'path': R.choice(['str', 'bytes', 'file', 's3'])})

    # ---- NCS op stream ------------------------------------------------------
    n = R.randint(1, P.get('max_steps', 20))
    ops = []
    ended = False
    for i in range(n):
        if P.get('raw_rate') and R.random() < P['raw_rate']:
            op = gen_raw(g, R)
            op['ro_id'] = g.ro_id
            ops.append(op)
            continue
        op = g.gen_op()
        ops.append(op)
        if op['type'] == 'RODelete':
            ended = True
    if not ended and R.random() < P.get('end_rate', 0.25):
        pos = len(ops) if R.random() < 0.6 else R.randint(0, len(ops))
        ops.insert(pos, {'type': 'RODelete', 'ro_id': g.ro_id, 'shapes': {}})
        ended = True
    if P.get('end_replace') and R.random() < P['end_replace']:
        # a roReplace as the last effective message (only a roDelete may follow)
        saved = g.weights
        g.weights = {'ROReplace': 1.0}
        rep = g.gen_op()
        g.weights = saved
        pos = len(ops)
        if ops and ops[-1]['type'] == 'RODelete':
            pos -= 1
        ops.insert(pos, rep)
    if ended and P.get('force_after_end'):
        # forced coverage: one of every message type after the roDelete
        idx = max(i for i, o in enumerate(ops) if o['type'] == 'RODelete')
        have = {o['type'] for o in ops[idx + 1:]}
        g.weights = {t: 1.0 for t in OP_TYPES}
        tries = 0
        while len(have) < len(OP_TYPES) and tries < 400:
            tries += 1
            op = g.gen_op()
            if op['type'] not in have:
                have.add(op['type'])
                ops.append(op)

    # ---- channel: loss / duplication / delay -----------------------------------
    delivered = []
    dropped = []
    pending = []      # (release_index, op)
    rate = P.get('channel_rate', 0.10) if faulty else 0.0
    for i, op in enumerate(ops):
        k = R.random()
        creates = op['type'] in ('StoryAppend', 'StoryInsert', 'StoryReplace', 'EAStoryInsert', 'EAStoryReplace',
                                 'ItemInsert', 'ItemReplace', 'EAItemInsert', 'EAItemReplace', 'StorySend', 'ROReplace')
        r = rate * (1.6 if creates else 0.7)
        if k < r * 0.45:
            dropped.append(op)
            g.stats['lost'] = g.stats.get('lost', 0) + 1
        elif k < r * 0.75:
            delivered.append((op, None))
            pending.append((i + R.randint(1, 4), dict(op), 'dup'))
        elif k < r:
            pending.append((i + R.randint(1, 4), op, 'delay'))
        else:
            delivered.append((op, None))
        still = []
        for rel, pop, why in pending:
            if rel <= i:
                delivered.append((pop, why))
            else:
                still.append((rel, pop, why))
        pending = still
    for rel, pop, why in pending:
        delivered.append((pop, why))

    # ---- delivery / driver steps ---------------------------------------------------
    restart_rate = P.get('restart_rate', 0.12)
    lags = P.get('twin_lag', [0, 0, 1, 2])
    plain = R.random() < 0.25
    for op, why in delivered:
        op = dict(op)
        op['mid'] = next_mid()
        op['env'] = draw_env(R)
        st = {'k': 'msg', 'op': op, 'knobs': draw_knobs(R, plain), 'path': R.choice(['str', 'str', 'bytes', 'file', 'file', 's3', 'pathlib']),
              'via': R.choice(['MosFile', 'MosFile', 'cls']), 'twin_lag': R.choice(lags)}
        if R.random() < 0.06:
            st['key'] = '%d+0100-%s%%2B.mos.xml' % (op['mid'], op['type'])      # a key with characters URL-decoding would change
        if why:
            st['channel'] = why
        if faulty and P.get('foreign_rate', 0.03) and R.random() < P.get('foreign_rate', 0.03) \
                and op['type'] not in ('ROReplace', 'Raw') and not op.get('malformed'):
            # mis-filed: addressed to another running order but delivered to this one
            op['ro_id'] = g.ro_id + '/other'
            op['foreign'] = True
            st['channel'] = 'foreign' 
        if op['type'] == 'Raw':
            st['merge'] = False
            st['via'] = 'MosFile'
        if P.get('corrupt_rate') and R.random() < P['corrupt_rate']:
            st['corrupt'] = draw_corrupt(R, 400)
            st['merge'] = False
        if faulty and st['path'] in ('file', 's3') and R.random() < 0.12:
            if st['path'] == 'file':
                st['io'] = R.choice([{'kind': 'short', 'short': R.randint(1, 64)}, {'kind': 'short', 'short': R.randint(1, 7)},
                                     {'kind': 'eio', 'after': R.randint(0, 300)}, {'kind': 'eacces'}])
            else:
                st['io'] = {'kind': 's3', 'code': R.choice(['InternalError', 'SlowDown', 'AccessDenied'])}
        elif st['path'] == 'file' and R.random() < 0.15:
            st['io'] = {'kind': 'short', 'short': R.randint(1, 33)}
        if P.get('classify_all') and R.random() < P['classify_all']:
            st['classify_all'] = True
        elif R.random() < 0.03:
            st['classify_all'] = True
        if P.get('double') and R.random() < 0.5:
            st['double'] = True
        steps.append(st)
        if op.get('resend') and op['type'] == 'StorySend' and st.get('merge', True) and not st.get('corrupt'):
            # the same message id again, for the same story, with other content
            op2 = {'type': 'StorySend', 'ro_id': op['ro_id'], 'shapes': dict(op.get('shapes', {})), 'mid': op['mid'], 'env': op['env']}
            if op.get('foreign'):
                op2['foreign'] = True
            sid = next(x[2] for x in op['payload'][0][4] if x[0] == 'storyID')
            g.fill_storysend(op2, sid, g.story_entry(sid))
            steps.append({'k': 'msg', 'op': op2, 'knobs': draw_knobs(R, plain), 'path': R.choice(['str', 'bytes', 'file', 's3']),
                          'via': 'MosFile', 'twin_lag': R.choice(lags), 'remid': True, 'key': '%d-StorySend-again.mos.xml' % op['mid']})
        if P.get('cli_mid') and R.random() < P['cli_mid']:
            steps.append({'k': 'cli', 'cmd': R.choice(['detect', 'inspect']), 'files': [{'i': 0}], 'src': 'files', 'mid_run': True})
        if RR.random() < restart_rate:
            steps.append({'k': 'restart', 'via': RR.choice(['mem', 'mem', 'file', 'bytes', 's3'])})
        if R.random() < 0.06:
            steps.append({'k': 'inspect'})

    # ---- a last message whose carried payload is not schema-shaped (only C05 judges it) ------------------
    if faulty and R.random() < P.get('poison_rate', 0.07):
        saved = g.weights
        g.weights = {t: 1.0 for t in ('StoryInsert', 'StoryAppend', 'StoryReplace', 'EAStoryInsert', 'EAStoryReplace',
                                      'ItemInsert', 'ItemReplace', 'EAItemInsert', 'EAItemReplace')}
        op = g.gen_op()
        g.weights = saved
        pay = op.get('payload', [])
        if len(pay) >= 2 and not op.get('malformed'):
            k = R.randrange(len(pay) - 1)
            idt = 'storyID' if pay[k][0] == 'story' else 'itemID'
            pay[k] = [pay[k][0], pay[k][1], pay[k][2], pay[k][3], [c for c in pay[k][4] if c[0] != idt]]
            op.update(mid=next_mid(), env={}, malformed=True, poison=True)
            steps.append({'k': 'msg', 'op': op, 'knobs': {}, 'path': 'str', 'via': 'MosFile', 'twin_lag': 0})

    # ---- end of run: collection, CLI, listing -------------------------------------------
    if P.get('batch'):
        from .collection import plan_batches
        plan_batches(steps, R, P, faulty)
    if P.get('listing'):
        from .collection import plan_listing
        plan_listing(steps, R, P, faulty)
    if P.get('cli'):
        from .clidriver import plan_cli
        plan_cli(steps, R, P, faulty)

    return {'version': 1, 'seed': seed, 'profile': profile_name, 'config': cfg, 'steps': steps,
            'dropped': [{'type': o['type']} for o in dropped]}
