"""Self-tests of the machinery (not registered checks): determinism, sensitivity (mutants), oracle validation.

    ./check --selftest determinism
    ./check --selftest mutants            (all of selftest/mutants/*.patch and seeded/*/patch*.diff)
    ./check --selftest mutants:NAME       (one of them)
    ./check --selftest oracle
"""
import glob
import json
import os
import shutil
import subprocess
import sys
import tempfile
import time

HERE = os.path.dirname(os.path.dirname(os.path.abspath(__file__)))
PY = '/venv/bin/python'
REPO = '/repo'


def _scratch(prefix):
    base = '/dev/shm' if os.path.isdir('/dev/shm') and os.access('/dev/shm', os.W_OK) else None
    return tempfile.mkdtemp(prefix=prefix, dir=base)


# ---------------------------------------------------------------------------
# determinism
# ---------------------------------------------------------------------------

def _digests(profiles, n, hashseed, njobs, flags, base=0):
    d = _scratch('mosromgr-verif-det-')
    try:
        procs = []
        for w in range(njobs):
            job = {'prop': '*', 'profiles': profiles, 'seed_base': base, 'start': w, 'count': n, 'stride': njobs,
                   'want_digests': True, 'hard_timeout': 1200, 'out': os.path.join(d, 'o%d.json' % w), 'max_viol': 0}
            jp = os.path.join(d, 'j%d.json' % w)
            json.dump(job, open(jp, 'w'))
            env = dict(os.environ, PYTHONHASHSEED=str(hashseed), PYTHONDONTWRITEBYTECODE='1', PYTHONUTF8='1')
            procs.append((subprocess.Popen([PY] + flags + ['-m', 'sim.worker', jp], cwd=HERE, env=env,
                                           stdout=subprocess.DEVNULL, stderr=subprocess.PIPE), job))
        out = {}
        errors = []
        for p, job in procs:
            _, err = p.communicate(timeout=1500)
            if p.returncode != 0:
                errors.append(err.decode()[-800:])
                continue
            r = json.load(open(job['out']))
            errors.extend(e['trace'] for e in r['errors'])
            out.update(r['digests'])
        return out, errors
    finally:
        shutil.rmtree(d, ignore_errors=True)


def determinism(njobs):
    from .plan import PROFILES
    profiles = sorted(PROFILES) + ['kofn', 'huge', 'bigbatch', 'trunc']
    n = int(os.environ.get('VERIF_DET_RUNS', '2400'))
    configs = [
        ('hashseed=0 jobs=%d' % njobs, 0, njobs, []),
        ('hashseed=0 jobs=%d (again)' % njobs, 0, njobs, []),
        ('hashseed=12345 jobs=3', 12345, 3, []),
        ('hashseed=777 jobs=1 -O', 777, 1, ['-O']),
    ]
    ref = None
    ok = True
    for name, hs, jobs, flags in configs:
        t = time.time()
        d, errors = _digests(profiles, n if jobs > 1 else n // 4, hs, jobs, flags)
        if errors:
            print('DETERMINISM harness errors in %s: %s' % (name, errors[:2]))
            ok = False
        if ref is None:
            ref = d
            print('%-34s %d digests (%.1fs)' % (name, len(d), time.time() - t))
            continue
        common = sorted(set(d) & set(ref))
        diff = [s for s in common if d[s] != ref[s]]
        print('%-34s %d digests, %d compared, %d differ (%.1fs)' % (name, len(d), len(common), len(diff), time.time() - t))
        if diff or not common:
            ok = False
            print('  differing seeds:', diff[:10])
    print('DETERMINISM', 'OK' if ok else 'FAILED')
    return 0 if ok else 2


# ---------------------------------------------------------------------------
# sensitivity: mutants
# ---------------------------------------------------------------------------

def mutant_list():
    out = []
    for p in sorted(glob.glob(os.path.join(HERE, 'selftest', 'mutants', '*.patch'))):
        meta = {}
        mp = p[:-6] + '.json'
        if os.path.exists(mp):
            meta = json.load(open(mp))
        out.append({'name': os.path.basename(p)[:-6], 'patch': p, 'props': meta.get('props', []), 'meta': meta})
    for d in sorted(glob.glob(os.path.join(HERE, 'seeded', '*'))):
        mp = os.path.join(d, 'meta.json')
        if not os.path.exists(mp):
            continue
        meta = json.load(open(mp))
        for pf in sorted(glob.glob(os.path.join(d, 'patch*.diff'))):
            out.append({'name': os.path.basename(d) + ('' if pf.endswith('patch.diff') else '-' + os.path.basename(pf)[5:-5]),
                        'patch': pf, 'props': meta.get('props', [meta.get('property')]), 'meta': meta})
    return out


def make_copy(patch):
    """scratch copy of the library with *patch* applied -> dir (to be removed by the caller)"""
    d = _scratch('mosromgr-verif-mut-')
    shutil.copytree(os.path.join(REPO, 'mosromgr'), os.path.join(d, 'mosromgr'),
                    ignore=shutil.ignore_patterns('__pycache__'))
    r = subprocess.run(['patch', '-p1', '-s', '--no-backup-if-mismatch', '-i', patch], cwd=d, capture_output=True, text=True)
    if r.returncode != 0:
        shutil.rmtree(d, ignore_errors=True)
        raise RuntimeError('patch %s does not apply: %s %s' % (patch, r.stdout, r.stderr))
    return d


def run_mutant(m, props, njobs, tier='quick', extra_args=()):
    d = make_copy(m['patch'])
    rd = _scratch('mosromgr-verif-rep-')
    res = {}
    try:
        for prop in props:
            env = dict(os.environ, VERIF_REPO=d, VERIF_REPLAY_DIR=rd, VERIF_EVIDENCE_DIR=rd)
            t = time.time()
            r = subprocess.run([os.path.join(HERE, 'check'), prop, '--tier', tier, '--jobs', str(njobs)] + list(extra_args),
                               cwd=HERE, env=env, capture_output=True, text=True, timeout=3600)
            lines = [l for l in r.stdout.split('\n') if l.startswith(('VIOLATION', 'HARNESS', 'C'))]
            res[prop] = {'rc': r.returncode, 'secs': round(time.time() - t, 1), 'lines': lines[:6]}
    finally:
        shutil.rmtree(d, ignore_errors=True)
        shutil.rmtree(rd, ignore_errors=True)
    return res


def mutants(njobs, only=None, all_props=False):
    from .props import PROPS
    ms = mutant_list()
    if only:
        import fnmatch
        ms = [m for m in ms if m['name'] == only or m['name'].startswith(only) or fnmatch.fnmatch(m['name'], only)]
    bad = 0
    results = {}
    for m in ms:
        props = sorted(PROPS) if all_props else (m['props'] or sorted(PROPS))
        res = run_mutant(m, props, njobs, extra_args=(['--scale', os.environ['VERIF_SCALE']] if os.environ.get('VERIF_SCALE') else ()))
        caught = [p for p, r in res.items() if r['rc'] == 1]
        harness = [p for p, r in res.items() if r['rc'] not in (0, 1)]
        status = 'CAUGHT' if any(p in caught for p in (m['props'] or props)) else 'MISSED'
        results[m['name']] = {'target': m['props'], 'caught_by': caught, 'harness_error': harness, 'checked': sorted(res)}
        if status == 'MISSED' or harness:
            bad += 1
        print('%-28s %s  caught by %s%s%s' % (m['name'], status, caught or '-', '  HARNESS-ERROR in %s' % harness if harness else '',
                                            '  (target %s)' % m['props'] if m['props'] else ''))
        for p, r in res.items():
            if r['rc'] not in (0, 1) or (p in (m['props'] or []) and r['rc'] != 1):
                print('    %s rc=%s %s' % (p, r['rc'], r['lines'][:3]))
        sys.stdout.flush()
    print('MUTANTS: %d of %d not caught / erroneous' % (bad, len(ms)))
    if os.environ.get('VERIF_RESULTS'):
        json.dump(results, open(os.environ['VERIF_RESULTS'], 'w'), indent=1)
    return 0 if bad == 0 else 1


def compliant(njobs, only=None):
    """negative controls: behaviour-changing but property-compliant variants must not raise any alarm"""
    from .props import PROPS
    bad = 0
    names = sorted(glob.glob(os.path.join(HERE, 'selftest', 'compliant', '*.patch')))
    for p in names:
        name = os.path.basename(p)[:-6]
        if only and not name.startswith(only):
            continue
        res = run_mutant({'patch': p}, sorted(PROPS), njobs)
        alarms = {k: r for k, r in res.items() if r['rc'] != 0}
        print('%-28s %s' % (name, 'QUIET' if not alarms else 'ALARM in %s' % sorted(alarms)))
        for k, r in sorted(alarms.items()):
            bad += 1
            print('    %s rc=%s %s' % (k, r['rc'], [l[:400] for l in r['lines'][:3]]))
        sys.stdout.flush()
    print('COMPLIANT VARIANTS: %d alarm(s)' % bad)
    return 0 if bad == 0 else 1


def run_selftest(what, njobs):
    if what.startswith('compliant'):
        return compliant(njobs, what.split(':', 1)[1] if ':' in what else None)
    if what == 'determinism':
        return determinism(njobs)
    if what.startswith('mutants'):
        only = what.split(':', 1)[1] if ':' in what else None
        return mutants(njobs, only)
    if what.startswith('allprops'):
        only = what.split(':', 1)[1] if ':' in what else None
        return mutants(njobs, only, all_props=True)
    if what == 'oracle':
        from .refmerger import validate_oracle
        return validate_oracle(njobs)
    print('unknown selftest', what)
    return 2
