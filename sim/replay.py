"""Replay / shrink entry point, run in a fresh interpreter (with the flags of the worker that
found the violation):

    python [-O] -m sim.replay replay  FILE      -> exit 1 + 'REPRODUCED clause' if the clause fires again
    python [-O] -m sim.replay shrink  IN OUT    -> minimise IN (a raw finding) into replay file OUT
"""
import json
import os
import sys
import warnings


def runner_for(mode):
    from .engine import execute
    from .worker import solo, strip_restarts, msg_events

    def plain(trace):
        return execute(trace)['violations']

    def dual(trace):
        ck = {'roundtrip': False, 'accessors': False, 'message': False}
        a = execute(solo(trace, ck))
        b = execute(solo(strip_restarts(trace), ck))
        if msg_events(a) != msg_events(b):
            return [{'clause': 'C14.restart-equiv'}]
        return []
    return dual if mode == 'dual_restart' else plain


def main():
    warnings.simplefilter('ignore')
    sys.path.insert(0, os.path.dirname(os.path.dirname(os.path.abspath(__file__))))
    cmd = sys.argv[1]
    if cmd == 'replay':
        rep = json.load(open(sys.argv[2]))
        run = runner_for(rep.get('mode', 'plain'))
        vs = run(rep['trace'])
        hit = [v for v in vs if v['clause'] == rep['clause']]
        if hit:
            print('REPRODUCED %s: %s' % (rep['clause'], hit[0].get('detail', '')))
            sys.exit(1)
        print('NOT-REPRODUCED %s' % rep['clause'])
        sys.exit(0)
    if cmd == 'shrink':
        from .shrink import shrink
        from .engine import execute
        raw = json.load(open(sys.argv[2]))
        run = runner_for(raw.get('mode', 'plain'))
        small, info = shrink(raw['trace'], raw['clause'], run, budget_s=raw.get('budget_s', 60))
        vs = [v for v in run(small) if v['clause'] == raw['clause']]
        rep = dict(raw)
        rep['trace'] = small
        rep['shrink'] = info
        rep['original_steps'] = len(raw['trace']['steps'])
        if vs:
            rep['detail'] = vs[0].get('detail', raw.get('detail'))
            rep['sig'] = vs[0].get('sig', raw.get('sig'))
        rep['digest'] = execute(small)['digest']
        from . import ops as O
        from .render import render
        rep['messages'] = [render(O.document(s['op']), {'indent': 1}) for s in small['steps'] if 'op' in s][:12]
        json.dump(rep, open(sys.argv[3], 'w'), indent=1, ensure_ascii=False)
        print('SHRUNK %d -> %d steps, %d tests' % (rep['original_steps'], len(small['steps']), info['tests']))
        sys.exit(0 if info.get('reproduced') else 3)


if __name__ == '__main__':
    main()
