"""Canonical abstraction of XML used by every oracle (DESIGN.md 6.1).

Two representations:

* *node*  - JSON-able list ``[tag, attrs, text, tail, children]`` used by the
  generator, in traces and in replay files;
* *canon* - immutable tuple ``(tag, attrs, text, tail, children)`` with
  insignificant whitespace normalised away; used for every comparison.

Nothing in here calls mosromgr: the abstraction of a running order is read from
the ElementTree element with ElementTree calls only.
"""
import hashlib

WS = ' \t\n\r'


def N(tag, *children, text='', tail='', **attrs):
    """Build a node."""
    return [tag, dict(attrs), text, tail, list(children)]


def T(tag, text=''):
    return [tag, {}, text, '', []]


def _ws(s):
    return s is None or s.strip(WS) == ''


def canon(node):
    """node -> canon."""
    tag, attrs, text, tail, children = node
    ch = tuple(canon(c) for c in children)
    text = text or ''
    tail = tail or ''
    if ch and _ws(text):
        text = ''
    if _ws(tail):
        tail = ''
    return (tag, tuple(sorted(attrs.items())), text, tail, ch)


def canon_et(e):
    """ElementTree element -> canon."""
    ch = tuple(canon_et(c) for c in e)
    text = e.text or ''
    tail = e.tail or ''
    if ch and _ws(text):
        text = ''
    if _ws(tail):
        tail = ''
    return (e.tag, tuple(sorted(e.attrib.items())), text, tail, ch)


def notail(c):
    """canon with the element's own tail dropped (position-independent content)."""
    return (c[0], c[1], c[2], '', c[4])


def node_of(c):
    """canon -> node."""
    return [c[0], dict(c[1]), c[2], c[3], [node_of(x) for x in c[4]]]


def child(c, tag):
    if c is None:
        return None
    for x in c[4]:
        if x[0] == tag:
            return x
    return None


def children(c, tag):
    return [x for x in c[4] if x[0] == tag] if c is not None else []


def child_text(c, tag):
    """Text of the first child *tag*: None if the child is absent or blank."""
    x = child(c, tag)
    if x is None:
        return None
    return x[2] if x[2] != '' else None


def has_child(c, tag):
    return child(c, tag) is not None


def digest(obj):
    return hashlib.sha256(repr(obj).encode('utf-8', 'surrogatepass')).hexdigest()[:16]


def size(c):
    return 1 + sum(size(x) for x in c[4])


# ---------------------------------------------------------------------------
# views of a running-order document
# ---------------------------------------------------------------------------

class RoView:
    """Structured, read-only view of a canon <mos> document holding a roCreate."""

    def __init__(self, root):
        self.root = root
        self.rc = child(root, 'roCreate')
        self.n_rc = len(children(root, 'roCreate'))
        self.metas = children(root, 'mosromgrmeta')
        self.envelope = tuple(x for x in root[4] if x[0] not in ('roCreate', 'mosromgrmeta'))

    @property
    def top(self):
        """children of roCreate"""
        return self.rc[4] if self.rc is not None else ()

    def stories(self):
        return [x for x in self.top if x[0] == 'story']

    def story_ids(self):
        return [child_text(x, 'storyID') for x in self.stories()]

    def story(self, sid):
        """first story with that id (None if none)"""
        for x in self.stories():
            if child_text(x, 'storyID') == sid:
                return x
        return None

    def unique_story_ids(self):
        ids = self.story_ids()
        return len(set(ids)) == len(ids) and None not in ids


def items_of(story):
    return [x for x in story[4] if x[0] == 'item']


def item_ids(story):
    return [child_text(x, 'itemID') for x in items_of(story)]


def unique_item_ids(story):
    ids = item_ids(story)
    return len(set(ids)) == len(ids) and None not in ids
