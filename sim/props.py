"""Per-property check configuration: which profiles are simulated, which oracle clauses
belong to the property, budgets (DESIGN.md 8, 9)."""

REAL = ['mosromgr.mostypes', 'mosromgr.moselements', 'mosromgr.moscollection', 'mosromgr.cli', 'mosromgr.utils.xml',
        'mosromgr.utils.s3 (listing/download code)', 'xml.etree.ElementTree + expat', 'dateutil.parser', 'argparse',
        'warnings machinery', 'interpreter flags (-O) of the worker processes']
STUB = ['NCS / message generator (sim.ncs)', 'channel (loss, duplication, delay) (sim.plan)',
        'file system faults via the open() seam over a private scratch directory (sim.world.SimFS)',
        'S3 client/resource: paginator, get (sim.world.SimS3); boto3 is never reached']

COMMON_ASSUMPTIONS = [
    'seeded sampling of histories and fault sequences, not enumeration: a clean batch is evidence, not proof',
    'bounds: <= 8 initial stories, <= 6 items per story, <= 4 sources per message, <= 40 steps per run',
    'generator alphabet excludes \\r (ElementTree writes it raw, XML reads it back as \\n), comments, PIs, namespaces',
    'every mosExternalMetadata block has a mosPayload (schema-shaped); timing tags live in the first block of a story and are never blank',
    'message ids are distinct and ascending in delivery order',
    'the oracle is relational: where the properties leave a choice (warn or raise, blank target = end or rejected, placement relative to non-story metadata) every choice is accepted',
]

_STEP = {'roundtrip': False, 'accessors': False, 'message': False}
_Q, _T = 'quick', 'thorough'


def _p(profiles, clauses, rule, runs_q, runs_t, checks=None, budget_q=60, budget_t=540, **kw):
    d = {'profiles': profiles, 'clauses': clauses, 'rule': rule, 'runs': {_Q: runs_q, _T: runs_t},
         'budget': {_Q: budget_q, _T: budget_t}, 'checks': checks}
    d.update(kw)
    return d


RULE_STEP = ('one case = one simulated run (roCreate, then messages produced by the NCS stub, passed through the lossy/'
             'duplicating/delaying channel and a drawn delivery path, merged by the real code, judged step by step); '
             'distinct_nontrivial counts distinct tuples (message type, target shape, story shape, position class, '
             'source shapes, list length, outcome class, completed?) plus distinct (previous op, op) pairs actually executed')

RULE_CLASSIFY = ('one case = one simulated run whose store holds schema-shaped messages, malformed relatives (unknown operation / shape, '
                 'unknown or nested or childless message elements, non-MOS XML) and objects corrupted by the store (truncation, flipped byte, '
                 'empty, garbage); every object is classified through str, bytes, file and S3 under warning filters default and error; '
                 'distinct_nontrivial counts distinct (expected verdict, expected class, observed outcome) tuples plus step tuples')
RULE_BATCH = ('one case = one simulated run ending in collection steps over what the channel left in the store: drawn constructor, supply '
              'order, allow_incomplete, strict, page size, collection-level faults (no/two roCreates, no/two roDeletes, foreign RO id, '
              'empty, subset); distinct_nontrivial counts distinct (constructor, validity reason, flags, size class) and (strict, failing '
              'messages, crash) tuples plus listing and step tuples')
RULE_STATE = ('one case = one simulated run; after every step the accessor sweep of the reached state is compared with values recomputed '
              'from the XML; distinct_nontrivial counts distinct step tuples (message type, reference shapes, outcome) that produced the states')
RULE_CLI = ('one case = one simulated run ending in CLI invocations (detect / inspect / merge) over the store with drawn file order, bad '
            'files (missing, directory, garbage, unknown, EACCES, EIO), options (-i, -n, -o, S3 prefix/key/suffix) and output faults; '
            'distinct_nontrivial counts distinct (command, source, bad-file kinds / collection kind, options) tuples plus step tuples')

PROPS = {
    'C01': _p(['story', 'story', 'mixed', 'timing', 'end'] * 4 + ['huge'], ['C01.order', 'C01.conserve'], RULE_STEP, 6000, 400000, _STEP),
    'C02': _p(['item', 'item', 'mixed', 'script'], ['C02.order', 'C02.conserve'], RULE_STEP, 6000, 400000, _STEP),
    'C03': _p(['story', 'item', 'mixed', 'meta'], ['C03.frame'], RULE_STEP, 6000, 400000, _STEP),
    'C04': _p(['mixed', 'story', 'item', 'meta', 'script', 'collection'], ['C04.payload', 'C04.collection'], RULE_STEP, 6000, 400000, _STEP),
    'C05': _p(['story', 'item', 'mixed', 'kofn'] * 4 + ['huge'], ['C05.atomic'], RULE_STEP, 6000, 400000, _STEP, faulty=True),
    'C06': _p(['story', 'item', 'mixed', 'kofn', 'collection'], ['C06.count', 'C06.silent', 'C06.spurious', 'C06.rest', 'C06.all-ids', 'C06.collection'], RULE_STEP, 6000, 400000, _STEP),
    'C07': _p(['end', 'end', 'mixed', 'collection'], ['C07.terminal', 'C07.terminal-changed', 'C07.never-completed', 'C07.complete',
                                                      'C07.content', 'C07.record', 'C07.roundtrip', 'C07.flag'], RULE_STEP, 4000, 300000,
              {'roundtrip': True, 'accessors': False, 'message': False}),
    'C08': _p(['classify'] * 31 + ['trunc'], ['C08.class', 'C08.config'], RULE_CLASSIFY, 4000, 300000, _STEP),
    'C09': _p(['collection'] * 14 + ['bigbatch'], ['C09.fold', 'C09.strict', 'C09.nonstrict'], RULE_BATCH, 3000, 200000, _STEP),
    'C10': _p(['collection'] * 14 + ['bigbatch'], ['C10.order', 'C10.perm', 'C10.sort'], RULE_BATCH, 3000, 200000, _STEP),
    'C11': _p(['collection'], ['C11.accept', 'C11.after'], RULE_BATCH, 3000, 200000, _STEP,
              variants=[{'flags': []}, {'flags': ['-O']}]),
    'C13': _p(['alias'], ['C13.msg-mutated', 'C13.reuse', 'C13.shared', 'C13.shared-edit', 'C13.history'], RULE_STEP, 3000, 200000,
              {'roundtrip': False, 'accessors': False, 'message': True, 'message_after': False}),
    'C14': _p(['mixed', 'meta', 'end', 'story'], ['C14.roundtrip', 'C14.envelope', 'C14.restart-equiv'], RULE_STEP, 2000, 200000,
              {'roundtrip': True, 'accessors': False, 'message': False}, dual_restart=True),
    'C15': _p(['timing', 'mixed', 'script', 'item'], ['C15.accessor'], RULE_STATE, 3000, 200000,
              {'roundtrip': False, 'accessors': True, 'message': False}),
    'C16': _p(['timing', 'timing', 'story'], ['C16.timing'], RULE_STATE, 3000, 200000,
              {'roundtrip': False, 'accessors': True, 'message': False}),
    'C17': _p(['script', 'script', 'mixed'], ['C17.script', 'C17.body'], RULE_STATE, 3000, 200000,
              {'roundtrip': False, 'accessors': True, 'message': False}),
    'C18': _p(['sources'] * 14 + ['bigbatch'], ['C18.source', 'C18.reader', 'C18.listing', 'C18.collection'], RULE_BATCH, 7000, 150000, _STEP),
    'C19': _p(['cli'], ['C19.detect', 'C19.inspect', 'C19.merge'], RULE_CLI, 2500, 150000, _STEP),
    'C20': _p(['mixed', 'story', 'item'], ['C20.ids', 'C20.content', 'C20.inspect'], RULE_STEP, 4000, 300000,
              {'roundtrip': False, 'accessors': False, 'message': True}),
    'C12': _p(['mixed', 'story', 'item', 'timing', 'classify', 'kofn', 'collection'] * 3 + ['huge'], ['C12.exc', 'C12.progress'], RULE_STEP, 6000, 400000, _STEP),
}
