"""build seeded/INDEX.md from the meta.json files and (optionally) a results file of ./check --selftest"""
import glob, json, os, sys
res = {}
for f in sys.argv[1:]:
    if os.path.exists(f):
        for k, v in json.load(open(f)).items():
            r = res.setdefault(k, {'caught_by': set(), 'checked': set()})
            r['caught_by'] |= set(v['caught_by']); r['checked'] |= set(v['checked'])
rows = []
for d in sorted(glob.glob('/verif/seeded/*/meta.json')):
    m = json.load(open(d)); name = os.path.basename(os.path.dirname(d))
    r = res.get(name, {})
    rows.append('| %s | %s | %s | %s | %s |' % (name, m.get('filed_under', m.get('property')), m.get('what', ''), m.get('needs', ''),
                ', '.join(sorted(r.get('caught_by', []))) or ('not caught' if m.get('not_caught') else '?')))
open('/verif/seeded/INDEX.md', 'w').write('# Seeded changes written by sub-agents (one property text + a scratch worktree each)\n\n'
    'Columns: name, property the author targeted, the change, what it needs to manifest, checks that catch it '
    '(quick tier; from `./check --selftest mutants` / `allprops`).\n\n| name | property | change | needs | caught by |\n|---|---|---|---|---|\n' + '\n'.join(rows) + '\n')
print(len(rows), 'rows')
