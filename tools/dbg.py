"""debug helper: run one seed of a profile and print its violations with the ops involved"""
import sys, json, warnings
warnings.simplefilter('ignore')
sys.path.insert(0, '/verif')
from sim.plan import generate
from sim.engine import execute
from sim import ops as O
from sim.render import render

def brief(op):
    d = {k: v for k, v in op.items() if k not in ('payload', 'env', 'element')}
    if 'payload' in op:
        ids = []
        for n in op['payload']:
            i = next((x[2] for x in n[4] if x[0] in ('storyID', 'itemID')), None)
            ids.append((n[0], i))
        d['payload_ids'] = ids
    return d

prof, seed = sys.argv[1], int(sys.argv[2])
want = sys.argv[3] if len(sys.argv) > 3 else None
tr = generate(seed, prof)
r = execute(tr)
shown = set()
for v in r['violations']:
    if want and not v['clause'].startswith(want):
        continue
    print(v['clause'], 'step', v['step'], '|', v['detail'])
    print('   sig', v['sig'])
    st = v['step']
    if st not in shown and 0 <= st < len(tr['steps']) and 'op' in tr['steps'][st]:
        shown.add(st)
        s = tr['steps'][st]
        print('   op ', brief(s['op']), {k: s[k] for k in s if k not in ('op', 'knobs')})
        if '-x' in sys.argv:
            print(render(O.document(s['op']), {'indent': 2}))
