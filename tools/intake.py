"""intake of a sub-agent's mutant: verify (applies to a clean copy of /repo HEAD; suite passes with it; demo fails with it and
passes without it) and store it as /verif/seeded/<name>/{patch.diff,demo.py,meta.json}"""
import json, os, shutil, subprocess, sys, tempfile

def sh(cmd, cwd=None, env=None, timeout=900):
    r = subprocess.run(cmd, cwd=cwd, env=env, capture_output=True, text=True, timeout=timeout)
    return r.returncode, (r.stdout + r.stderr)[-1500:]

def main(prop, patch, demo, name, notes):
    d = tempfile.mkdtemp(prefix='mosromgr-verif-intake-', dir='/dev/shm')
    try:
        sh(['bash', '-c', 'git -C /repo archive HEAD | tar -x -C %s' % d])
        env = dict(os.environ, PYTHONPATH=d, PYTHONDONTWRITEBYTECODE='1')
        demo_src = open(demo).read().replace('/tmp/mut/%s' % prop, d)
        dp = os.path.join(d, '_demo.py')
        open(dp, 'w').write(demo_src)
        res = {}
        res['demo_clean_rc'], out0 = sh(['/venv/bin/python', dp], cwd=d, env=env)
        rc, out = sh(['git', 'apply', '--whitespace=nowarn', patch], cwd=d)   # not a repo: falls back to plain apply
        if rc != 0:
            rc, out = sh(['patch', '-p1', '-s', '-i', patch], cwd=d)
        res['applies'] = rc == 0
        res['suite_rc'], so = sh(['/venv/bin/python', '-m', 'pytest', '-q', '-p', 'no:cacheprovider'], cwd=d, env=env)
        res['suite_tail'] = so.strip().split('\n')[-1]
        res['demo_mut_rc'], out1 = sh(['/venv/bin/python', dp], cwd=d, env=env)
        ok = res['applies'] and res['suite_rc'] == 0 and res['demo_clean_rc'] == 0 and res['demo_mut_rc'] == 1
        print(name, 'OK' if ok else 'REJECTED', res)
        if not ok:
            print(out0[-400:], out1[-400:])
            return 1
        dst = os.path.join('/verif/seeded', name)
        os.makedirs(dst, exist_ok=True)
        shutil.copy(patch, os.path.join(dst, 'patch.diff'))
        open(os.path.join(dst, 'demo.py'), 'w').write(open(demo).read().replace('/tmp/mut/%s' % prop, '/repo'))
        meta = {'property': prop, 'props': [prop], 'origin': 'fresh sub-agent given only the property text and a scratch worktree',
                'needs': notes, 'verified': {'base': subprocess.run(['git', '-C', '/repo', 'rev-parse', '--short', 'HEAD'], capture_output=True, text=True).stdout.strip(),
                'suite_with_patch': res['suite_tail'], 'demo_rc_with_patch': res['demo_mut_rc'], 'demo_rc_without_patch': res['demo_clean_rc'],
                'how': 'tools/intake.py: git archive of /repo HEAD into a scratch dir, demo, apply patch, pytest, demo'}}
        json.dump(meta, open(os.path.join(dst, 'meta.json'), 'w'), indent=1)
        return 0
    finally:
        shutil.rmtree(d, ignore_errors=True)

if __name__ == '__main__':
    sys.exit(main(*sys.argv[1:6]))
